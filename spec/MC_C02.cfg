SPECIFICATION SpecC
CONSTANTS
  Dev = {}
  Meaning <- MC_Meaning
  Alphabet <- MC_Alphabet
  KeyU <- MC_KeyU
  PatU <- MC_PatU
  ParentU <- MC_ParentU
  Clients_ = {"c1", "c2"}
  Vers_ = {0, 1, 5}
  MaxVer = 4
  MaxAcq = 0
  MaxSubs = 0
  NeedConnect = FALSE
CONSTRAINT Bound
INVARIANTS C01Inv EdgeInv OneWinner NoLostUpdate NeverDown
CHECK_DEADLOCK FALSE
