------------------------------- MODULE MC_C01 -------------------------------
(* C01: reads return exactly what the accepted writes imply - bounded universe *)
EXTENDS MCBase

a == <<"a">>  ab == <<"a", "b">>  b == <<"b">>  zz == <<"z", "z">>
Keys_ == {a, ab, b}
Pats_ == {a, <<"a", "?">>, <<"a", "#">>, <<"?">>, <<"#">>, <<"?", "b">>, <<"a", "#", "b">>}
Vals_ == {"v1", "v2"}
Vers_ == {0, 1, 2}
Imports_ == { {[p |-> <<>>, e |-> NoneE], [p |-> a, e |-> NoneE], [p |-> ab, e |-> CasE("v2", 2)]},
              {[p |-> <<>>, e |-> NoneE], [p |-> b, e |-> PlainE("v1")]} }

MC_Alphabet ==
       {[op |-> "set", key |-> k, val |-> v, c |-> "c1"] : k \in Keys_, v \in Vals_}
  \cup {[op |-> "cset", key |-> k, val |-> v, ver |-> n, c |-> "c1"] : k \in Keys_, v \in Vals_, n \in Vers_}
  \cup {[op |-> "delete", key |-> k, c |-> "c1"] : k \in Keys_ \cup {zz}}
  \cup {[op |-> "pdelete", pat |-> p, c |-> "c1"] : p \in Pats_}
  \cup {[op |-> "import", tree |-> t] : t \in Imports_}
  \cup {[op |-> "get", key |-> k] : k \in Keys_ \cup {zz, <<"?">>}}
  \cup {[op |-> "cget", key |-> k] : k \in Keys_ \cup {zz}}
  \cup {[op |-> "pget", pat |-> p] : p \in Pats_}
  \cup {[op |-> "ls", parent |-> p] : p \in {<<>>, a, b, <<"z">>}}
  \cup {[op |-> "pls", pat |-> p] : p \in {<<>>, <<"?">>, a, <<"a", "#">>, <<"z", "#">>}}
  \cup {[op |-> "len"]}

MC_KeyU == Keys_ \cup {zz}
MC_PatU == Pats_
MC_ParentU == {<<>>, a, b, ab, <<"z">>}
MC_Meaning == <<>>
=============================================================================
