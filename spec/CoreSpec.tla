------------------------------ MODULE CoreSpec ------------------------------
(***************************************************************************)
(* Core.tla (implementation-shaped) + the REFERENCE LAYER + the actions.   *)
(*                                                                         *)
(* Reference layer: what the listed properties say must be observable,     *)
(* computed by the obviously-correct rule from the history of ANSWERED     *)
(* requests: a flat map `ref` to which accepted writes are applied, the    *)
(* documented match relation Keys!Matches, one event per touched matching  *)
(* key, first-come lock queues.  It never looks at the tree.               *)
(*                                                                         *)
(* Properties C01..C08 (and the core part of C17) are stated as state      *)
(* invariants relating S (implementation-shaped) to R (reference) and as   *)
(* edge conditions relating `out` (what the implementation-shaped layer    *)
(* delivers) to `exp` (what the reference layer expects).                  *)
(***************************************************************************)
EXTENDS Core

VARIABLES
  S,     \* implementation-shaped state (Core!InitS)
  R,     \* reference state
  out,   \* observation of the last request: [rep, ev, ls, lk]
  exp,   \* expectation of the reference layer for the last request
  act    \* the last request

vars == <<S, R, out, exp, act>>

(***************************************************************************)
(* Requests.  A request is a record with field `op` and the arguments of   *)
(* that operation; trees travel as sets of [p, e] records.                 *)
(***************************************************************************)
TreeOf(nodes) == [q \in {n.p : n \in nodes} |-> (CHOOSE n \in nodes : n.p = q).e]

IsRead(r) == r.op \in {"get", "cget", "pget", "ls", "pls", "len"}

Result(X, r, req) ==
  IF X.down THEN Res(X, Down)
  ELSE CASE r.op = "get"        -> DoGet(X, r.key)
         [] r.op = "cget"       -> DoCGet(X, r.key)
         [] r.op = "pget"       -> DoPGet(X, r.pat)
         [] r.op = "ls"         -> DoLs(X, r.parent)
         [] r.op = "pls"        -> DoPLs(X, r.pat)
         [] r.op = "len"        -> DoLen(X)
         [] r.op = "set"        -> DoSet(X, r.key, r.val, r.c, FALSE)
         [] r.op = "cset"       -> DoCSet(X, r.key, r.val, r.ver, r.c, FALSE)
         [] r.op = "delete"     -> DoDelete(X, r.key, r.c)
         [] r.op = "pdelete"    -> DoPDelete(X, r.pat, r.c)
         [] r.op = "publish"    -> DoPublish(X, r.key, r.val)
         [] r.op = "spubinit"   -> DoSPubInit(X, r.tid, r.key, r.c)
         [] r.op = "spub"       -> DoSPub(X, r.tid, r.val, r.c)
         [] r.op = "import"     -> DoImport(X, TreeOf(r.tree))
         [] r.op = "sub"        -> DoSubscribe(X, r.c, r.tid, r.key, r.unique, r.live)
         [] r.op = "psub"       -> DoPSubscribe(X, r.c, r.tid, r.pat, r.unique, r.live)
         [] r.op = "unsub"      -> DoUnsubscribe(X, r.c, r.tid)
         [] r.op = "subls"      -> DoSubscribeLs(X, r.c, r.tid, r.parent)
         [] r.op = "unsubls"    -> DoUnsubscribeLs(X, r.c, r.tid)
         [] r.op = "lock"       -> DoLock(X, r.key, r.c)
         [] r.op = "acquire"    -> DoAcquireLock(X, r.key, r.c, req)
         [] r.op = "release"    -> DoReleaseLock(X, r.key, r.c)
         [] r.op = "connect"    -> DoConnected(X, r.c, r.proto, r.addr)
         [] r.op = "disconnect" -> DoDisconnected(X, r.c)
         [] r.op = "restart"    -> DoRestart(X, r.layout)

(***************************************************************************)
(* Reference layer                                                         *)
(***************************************************************************)
InitR == [
  ref      |-> EmptyF,    \* flat map key -> entry
  clients  |-> {},
  subs     |-> {},        \* [id, pat, unique, live]
  lsSubs   |-> {},        \* [id, parent]
  lsLast   |-> EmptyF,    \* ls-subscription -> last list delivered (fed by `out`)
  fold     |-> EmptyF,    \* subscription -> snapshot with the delivered events folded in
  foldOk   |-> {},        \* subscriptions whose fold is comparable (no publish seen)
  lockq    |-> EmptyF,    \* key -> [holder, q]  (q: waiting clients, first come first)
  pending  |-> EmptyF,    \* acquire request -> <<key, client>>
  resolved |-> {},        \* acquire requests that got their one outcome
  usedIds  |-> {},        \* subscription ids ever used (bounding aid for model checking)
  nacq     |-> 0,         \* number of acquire-lock requests so far
  pubs     |-> EmptyF     \* <<client, tid>> -> key   (publish streams)
]

\* keys of $SYS an ordinary client must not be able to change (C08)
Protected(c, k) ==
  /\ c # INT
  /\ k[1] = SYS
  /\ ~(Len(k) >= 4 /\ k[2] = CLIENTS /\ k[3] = c /\ k[4] \in {GG, LW, CNAME})

\* a pattern of an ordinary client whose first segment is a wildcard does not
\* reach below $SYS at all
Deletable(c, pat, k) ==
  ~Protected(c, k) /\ ~(c # INT /\ pat[1] \in {WILD, MULTI} /\ k[1] = SYS)

RefGet(ref, k) == IF k \in DOMAIN ref THEN ref[k] ELSE NoneE
RefMatches(ref, p) == {k \in DOMAIN ref : Matches(p, k)}

\* expected events ------------------------------------------------------
NoExp == [rep |-> [t |-> "any"], ev |-> EmptyF, lk |-> {}]

\* one event for key k to every subscription whose pattern matches it
EvFor(subs, k, v, changed, deleted) ==
  LET hit == {s \in subs : Matches(s.pat, k) /\ (changed \/ ~s.unique)}
  IN [id \in {s.id : s \in hit} |-> << {[t |-> IF deleted THEN "del" ELSE "val", kvs |-> {<<k, v>>}]} >>]

\* ref operations return [ref, ev] -----------------------------------------
RefPut(X, k, e) ==
  LET old == RefGet(X.ref, k)
      changed == old.k = "none" \/ old.v # e.v
  IN [ref |-> (k :> e) @@ X.ref, ev |-> CatEv(X.ev, EvFor(X.subs, k, e.v, changed, FALSE)), subs |-> X.subs]

RefDrop(X, keys) ==
  LET Ev(acc, k) == UnionEv(acc, EvFor(X.subs, k, X.ref[k].v, TRUE, TRUE))
  IN [ref |-> RestrictF(X.ref, DOMAIN X.ref \ keys),
      ev  |-> IF keys = {} THEN X.ev ELSE CatEv(X.ev, FoldS(Ev, EmptyF, keys)),
      subs |-> X.subs]

RECURSIVE RefBury(_, _, _)
RefBury(X, ggs, c) ==
  IF ggs = <<>> THEN X
  ELSE LET p == Head(ggs)
           keys == IF p = <<"">> \/ ~Legal(p) \/ ReadOnlyCheck(p, c) # -1 THEN {}
                   ELSE {k \in RefMatches(X.ref, p) : Deletable(c, p, k)}
       IN RefBury(RefDrop(X, keys), Tail(ggs), c)

RECURSIVE RefWill(_, _, _)
RefWill(X, lws, c) ==
  IF lws = <<>> THEN X
  ELSE LET w == Head(lws)
           skip == w.k = <<"">> \/ HasWildcard(w.k) \/ Protected(c, w.k)
       IN RefWill(IF skip THEN X ELSE RefPut(X, w.k, PlainE(w.v)), Tail(lws), c)

\* the reference reads (C01, C05) -------------------------------------------
RefRead(ref, r) ==
  CASE r.op = "get" ->
         IF HasWildcard(r.key) THEN Err(FirstWildErr(r.key))
         ELSE IF r.key \in DOMAIN ref THEN RVal(ref[r.key].v) ELSE Err(E_NOVAL)
    [] r.op = "cget" ->
         IF HasWildcard(r.key) THEN Err(FirstWildErr(r.key))
         ELSE IF r.key \in DOMAIN ref THEN RCVal(ref[r.key].v, ref[r.key].n) ELSE Err(E_NOVAL)
    [] r.op = "pget" ->
         IF ~Legal(r.pat) THEN Err(E_MULTI)
         ELSE RKvs({<<k, ref[k].v>> : k \in RefMatches(ref, r.pat)})
    [] r.op = "ls" ->
         \* "no such value" exactly when nothing is stored at or below the parent
         IF r.parent = <<>> \/ \E k \in DOMAIN ref : IsPrefixOf(r.parent, k)
           THEN RList(NextSegs(DOMAIN ref, r.parent)) ELSE Err(E_NOVAL)
    [] r.op = "pls" ->
         IF \E i \in 1..Len(r.pat) : r.pat[i] = MULTI THEN Err(E_MULTI)
         ELSE RList(UNION {NextSegs(DOMAIN ref, p) :
                            p \in {SubSeq(k, 1, Len(r.pat)) :
                                     k \in {x \in DOMAIN ref : Len(x) >= Len(r.pat)
                                                               /\ Matches(r.pat, SubSeq(x, 1, Len(r.pat)))}}})
    [] r.op = "len" -> RLen(Cardinality(DOMAIN ref))

\* locks --------------------------------------------------------------------
Holder(lockq, k) == IF k \in DOMAIN lockq THEN lockq[k].holder ELSE "free"
PendingOf(X, k, c) == {q \in DOMAIN X.pending : X.pending[q] = <<k, c>>}

\* c gives up or loses whatever it has on key k: returns [lockq, lk, pending]
RefLeave(X, k, c) ==
  IF k \notin DOMAIN X.lockq THEN X
  ELSE LET l == X.lockq[k] IN
    IF l.holder = c THEN
      IF l.q = <<>> THEN [X EXCEPT !.lockq = RestrictF(@, DOMAIN @ \ {k})]
      ELSE LET n == Head(l.q) g == PendingOf(X, k, n) IN
           [X EXCEPT !.lockq[k] = [holder |-> n, q |-> Tail(l.q)],
                     !.lk = @ \cup {<<q, "granted">> : q \in g},
                     !.pending = RestrictF(@, DOMAIN @ \ g)]
    ELSE LET g == PendingOf(X, k, c) IN
         [X EXCEPT !.lockq[k].q = SelectSeq(@, LAMBDA x : x # c),
                   !.lk = @ \cup {<<q, "cancelled">> : q \in g},
                   !.pending = RestrictF(@, DOMAIN @ \ g)]

\* reference effect of a restart through the JSON persistence (C09): every user key
\* with its value, kind and version, nothing under $SYS, registrations applied
RefRestart(X, r) ==
  LET user == {k \in DOMAIN X.ref : k[1] # SYS}
      regs(leaf) == {k \in DOMAIN X.ref : Len(k) = 4 /\ k[1] = SYS /\ k[2] = CLIENTS /\ k[4] = leaf
                                           /\ X.ref[k].v \in DOMAIN Meaning}
      gg == ConcatSeqs({Meaning[X.ref[k].v].gg : k \in regs(GG)})
      lw == ConcatSeqs({Meaning[X.ref[k].v].lw : k \in regs(LW)})
      E0 == [ref |-> RestrictF(X.ref, user), ev |-> EmptyF, subs |-> {}]
      e1 == IF r.layout = "v1" THEN E0 ELSE RefBury(E0, gg, INT)
      e2 == IF r.layout = "v1" THEN e1 ELSE RefWill(e1, lw, INT)
  IN [R |-> [InitR EXCEPT !.ref = e2.ref, !.nacq = X.nacq],
      exp |-> [NoExp EXCEPT !.rep = Ok,
                            !.lk = {<<q, "cancelled">> : q \in DOMAIN X.pending}]]

(***************************************************************************)
(* RefStep: new reference state and expectation for request r that the     *)
(* implementation-shaped layer answered with observation o.                *)
(***************************************************************************)
Accepted(o) == o.rep.t \notin {"err", "down"}

Fold(old, batches) ==
  \* apply delivered events to a key->value snapshot (set of <<k, v>>)
  LET RECURSIVE F(_, _)
      F(acc, bs) ==
        IF bs = <<>> THEN acc
        ELSE LET b == Head(bs)
                 dels == UNION {{kv[1] : kv \in e.kvs} : e \in {x \in b : x.t = "del"}}
                 vals == UNION {e.kvs : e \in {x \in b : x.t = "val"}}
             IN F({kv \in acc : kv[1] \notin dels /\ kv[1] \notin {x[1] : x \in vals}} \cup vals, Tail(bs))
  IN F(old, batches)

\* history variables that are fed by the delivered observation
Feed(X, o, r) ==
  LET liveLs  == {s.id : s \in X.lsSubs}
      liveSub == {s.id : s \in X.subs}
      isPub   == r.op \in {"publish", "spub"}
  IN [X EXCEPT
        !.lsLast = LET m == o.ls @@ @ IN RestrictF(m, liveLs \cap DOMAIN m),
        !.fold   = [id \in liveSub |->
                      Fold(IF id \in DOMAIN @ THEN @[id] ELSE {},
                           IF id \in DOMAIN o.ev THEN o.ev[id] ELSE <<>>)],
        !.foldOk = (@ \cap liveSub) \ (IF isPub THEN DOMAIN o.ev ELSE {})]

RefStep(X, r, o) ==
  LET ok == Accepted(o)
      E0 == [ref |-> X.ref, ev |-> EmptyF, subs |-> X.subs]
      Wr(e) == IF ok /\ ~Protected(r.c, r.key) THEN RefPut(E0, r.key, e) ELSE E0
  IN
  CASE IsRead(r) -> [R |-> X, exp |-> [NoExp EXCEPT !.rep = RefRead(X.ref, r)]]
    [] r.op = "set"  ->
         LET e == Wr(PlainE(r.val)) IN [R |-> [X EXCEPT !.ref = e.ref], exp |-> [NoExp EXCEPT !.ev = e.ev]]
    [] r.op = "cset" ->
         LET e == Wr(CasE(r.val, r.ver + 1)) IN [R |-> [X EXCEPT !.ref = e.ref], exp |-> [NoExp EXCEPT !.ev = e.ev]]
    [] r.op = "delete" ->
         LET e == IF ok /\ ~Protected(r.c, r.key) /\ r.key \in DOMAIN X.ref THEN RefDrop(E0, {r.key}) ELSE E0
         IN [R |-> [X EXCEPT !.ref = e.ref], exp |-> [NoExp EXCEPT !.ev = e.ev]]
    [] r.op = "pdelete" ->
         LET keys == IF ok THEN {k \in RefMatches(X.ref, r.pat) : Deletable(r.c, r.pat, k)} ELSE {}
             e == RefDrop(E0, keys)
         IN [R |-> [X EXCEPT !.ref = e.ref],
             exp |-> [NoExp EXCEPT !.ev = e.ev,
                                   !.rep = IF ok THEN RKvs({<<k, X.ref[k].v>> : k \in keys}) ELSE [t |-> "any"]]]
    [] r.op = "import" ->
         LET imp == TreeOf(r.tree)
             ins == {q \in DOMAIN imp : imp[q].k # "none"}
             Ev(acc, k) == UnionEv(acc, EvFor(X.subs, k, imp[k].v, RefGet(X.ref, k) # imp[k], FALSE))
         IN IF ok THEN [R |-> [X EXCEPT !.ref = [k \in DOMAIN X.ref \cup ins |-> IF k \in ins THEN imp[k] ELSE X.ref[k]]],
                        exp |-> [NoExp EXCEPT !.ev = FoldS(Ev, EmptyF, ins)]]
            ELSE [R |-> X, exp |-> NoExp]
    [] r.op = "publish" ->
         [R |-> X, exp |-> [NoExp EXCEPT !.ev = IF ok /\ r.key[1] # SYS THEN EvFor(X.subs, r.key, r.val, TRUE, FALSE) ELSE EmptyF]]
    [] r.op = "spubinit" ->
         [R |-> IF ok THEN [X EXCEPT !.pubs = (<<r.c, r.tid>> :> r.key) @@ @] ELSE X, exp |-> NoExp]
    [] r.op = "spub" ->
         LET id == <<r.c, r.tid>> IN
         [R |-> X, exp |-> [NoExp EXCEPT !.ev = IF ok /\ id \in DOMAIN X.pubs /\ ~Protected(r.c, X.pubs[id])
                                                  THEN EvFor(X.subs, X.pubs[id], r.val, TRUE, FALSE) ELSE EmptyF]]
    [] r.op = "sub" ->
         LET id == <<r.c, r.tid>>
             snap == IF ~r.live /\ r.key \in DOMAIN X.ref THEN {<<r.key, X.ref[r.key].v>>} ELSE {}
         IN IF ok THEN [R |-> [X EXCEPT !.subs = @ \cup {[id |-> id, pat |-> r.key, unique |-> r.unique, live |-> r.live]},
                                        !.usedIds = @ \cup {id},
                                        !.foldOk = IF r.live THEN @ ELSE @ \cup {id}],
                        exp |-> [NoExp EXCEPT !.ev = IF snap = {} THEN EmptyF ELSE (id :> << {[t |-> "val", kvs |-> snap]} >>)]]
            ELSE [R |-> [X EXCEPT !.usedIds = @ \cup {id}], exp |-> NoExp]
    [] r.op = "psub" ->
         LET id == <<r.c, r.tid>>
             snap == {<<k, X.ref[k].v>> : k \in RefMatches(X.ref, r.pat)}
         IN IF ok THEN [R |-> [X EXCEPT !.subs = @ \cup {[id |-> id, pat |-> r.pat, unique |-> r.unique, live |-> r.live]},
                                        !.usedIds = @ \cup {id},
                                        !.foldOk = IF r.live THEN @ ELSE @ \cup {id}],
                        exp |-> [NoExp EXCEPT !.ev = IF r.live THEN EmptyF ELSE (id :> << {[t |-> "val", kvs |-> snap]} >>),
                                              !.rep = IF Legal(r.pat) THEN Ok ELSE Err(E_MULTI)]]
            ELSE [R |-> [X EXCEPT !.usedIds = @ \cup {id}], exp |-> [NoExp EXCEPT !.rep = IF Legal(r.pat) THEN Ok ELSE Err(E_MULTI)]]
    [] r.op = "unsub" ->
         LET id == <<r.c, r.tid>> live == id \in {s.id : s \in X.subs} IN
         [R |-> [X EXCEPT !.subs = {s \in @ : s.id # id}],
          exp |-> [NoExp EXCEPT !.rep = IF live THEN Ok ELSE Err(E_NOTSUB)]]
    [] r.op = "subls" ->
         LET id == <<r.c, r.tid>> IN
         [R |-> [X EXCEPT !.lsSubs = @ \cup {[id |-> id, parent |-> r.parent]}, !.usedIds = @ \cup {id}],
          exp |-> [NoExp EXCEPT !.rep = Ok]]
    [] r.op = "unsubls" ->
         LET id == <<r.c, r.tid>> live == id \in {s.id : s \in X.lsSubs} IN
         [R |-> [X EXCEPT !.lsSubs = {s \in @ : s.id # id}],
          exp |-> [NoExp EXCEPT !.rep = IF live THEN Ok ELSE Err(E_NOTSUB)]]
    [] r.op = "lock" ->
         LET h == Holder(X.lockq, r.key) IN
         IF HasWildcard(r.key) THEN [R |-> X, exp |-> [NoExp EXCEPT !.rep = Err(FirstWildErr(r.key))]]
         ELSE IF h = "free" THEN [R |-> [X EXCEPT !.lockq = (r.key :> [holder |-> r.c, q |-> <<>>]) @@ @],
                                  exp |-> [NoExp EXCEPT !.rep = Ok]]
         ELSE [R |-> X, exp |-> [NoExp EXCEPT !.rep = IF h = r.c THEN Ok ELSE Err(E_LOCKED)]]
    [] r.op = "acquire" ->
         LET h == Holder(X.lockq, r.key)
             q == X.nacq + 1
             X1 == [X EXCEPT !.nacq = q] IN
         IF HasWildcard(r.key) THEN [R |-> X1, exp |-> [NoExp EXCEPT !.rep = Err(FirstWildErr(r.key))]]
         ELSE IF h = "free" THEN [R |-> [X1 EXCEPT !.lockq = (r.key :> [holder |-> r.c, q |-> <<>>]) @@ @,
                                                   !.resolved = @ \cup {q}],
                                  exp |-> [NoExp EXCEPT !.rep = Ok, !.lk = {<<q, "granted">>}]]
         ELSE IF h = r.c THEN [R |-> [X1 EXCEPT !.resolved = @ \cup {q}],
                               exp |-> [NoExp EXCEPT !.rep = Ok, !.lk = {<<q, "granted">>}]]
         ELSE [R |-> [X1 EXCEPT !.lockq[r.key].q = IF \E i \in 1..Len(@) : @[i] = r.c THEN @ ELSE Append(@, r.c),
                                !.pending = (q :> <<r.key, r.c>>) @@ @],
               exp |-> [NoExp EXCEPT !.rep = Ok]]
    [] r.op = "release" ->
         LET h == Holder(X.lockq, r.key)
             L == RefLeave([lockq |-> X.lockq, lk |-> {}, pending |-> X.pending], r.key, r.c) IN
         IF HasWildcard(r.key) THEN [R |-> X, exp |-> [NoExp EXCEPT !.rep = Err(FirstWildErr(r.key))]]
         ELSE [R |-> [X EXCEPT !.lockq = L.lockq, !.pending = L.pending,
                               !.resolved = @ \cup {x[1] : x \in L.lk}],
               exp |-> [NoExp EXCEPT !.lk = L.lk,
                                     !.rep = IF h = "free" THEN Err(E_NOTLOCKED)
                                             ELSE IF h = r.c THEN Ok ELSE Err(E_LOCKED)]]
    [] r.op = "connect" ->
         IF r.c \in X.clients THEN [R |-> X, exp |-> [NoExp EXCEPT !.rep = Err(E_COLLISION)]]
         ELSE LET cl == X.clients \cup {r.c}
                  e1 == RefPut(E0, ClientsKey, PlainE(NumTok(Cardinality(cl))))
                  e2 == RefPut(e1, ClientKey(r.c, "protocol"), PlainE(r.proto))
                  e3 == RefPut(e2, ClientKey(r.c, "address"), PlainE(r.addr))
              IN [R |-> [X EXCEPT !.clients = cl, !.ref = e3.ref],
                  exp |-> [NoExp EXCEPT !.rep = Ok, !.ev = e3.ev]]
    [] r.op = "restart" -> RefRestart(X, r)
    [] r.op = "disconnect" ->
         LET c  == r.c
             ggk == ClientKey(c, GG)
             lwk == ClientKey(c, LW)
             gg == IF ggk \in DOMAIN X.ref /\ X.ref[ggk].v \in DOMAIN Meaning THEN Meaning[X.ref[ggk].v].gg ELSE <<>>
             lw == IF lwk \in DOMAIN X.ref /\ X.ref[lwk].v \in DOMAIN Meaning THEN Meaning[X.ref[lwk].v].lw ELSE <<>>
             \* locks: leave every key
             Lv(acc, k) == RefLeave(acc, k, c)
             L  == FoldS(Lv, [lockq |-> X.lockq, lk |-> {}, pending |-> X.pending], DOMAIN X.lockq)
             cl == X.clients \ {c}
             others == {s \in X.subs : s.id[1] # c}
             e1 == RefPut(E0, ClientsKey, PlainE(NumTok(Cardinality(cl))))       \* c's subscriptions still exist
             e2 == RefDrop([e1 EXCEPT !.subs = others], RefMatches(e1.ref, <<SYS, CLIENTS, c, MULTI>>))
             e3 == RefBury(e2, gg, c)
             e4 == RefWill(e3, lw, c)
         IN [R |-> [X EXCEPT !.clients = cl, !.ref = e4.ref,
                             !.subs = others,
                             !.lsSubs = {s \in @ : s.id[1] # c},
                             !.pubs = RestrictF(@, {x \in DOMAIN @ : x[1] # c}),
                             !.lockq = L.lockq, !.pending = L.pending,
                             !.resolved = @ \cup {x[1] : x \in L.lk}],
             exp |-> [NoExp EXCEPT !.rep = Ok, !.ev = e4.ev, !.lk = L.lk]]

(***************************************************************************)
(* Actions                                                                 *)
(***************************************************************************)
Init ==
  /\ S = InitS
  /\ R = InitR
  /\ out = [rep |-> Ok, ev |-> EmptyF, ls |-> EmptyF, lk |-> {}]
  /\ exp = NoExp
  /\ act = [op |-> "init"]

\* Extended monitoring: the keys the server maintains about subscriptions, locks and connection times
\* are not the effect of any client request.  The reference layer takes them over from the
\* implementation-shaped layer (they are checked for what they should say by LockInfoInv, and for
\* everything structural - clean trees, listings, events in step with the store - like any other key).
MonKey(k) ==
  /\ Len(k) >= 2 /\ k[1] = SYS
  /\ \/ k = <<SYS, SUBS>>
     \/ k[2] = LOCKS
     \/ (Len(k) >= 4 /\ k[2] = CLIENTS /\ k[4] \in {SUBS, SINCE, "protocolVersion"})
Overlay(X, Snew) ==
  IF ~ExtMon THEN X
  ELSE LET mon  == {k \in DOMAIN Snew.store : MonKey(k) /\ Snew.store[k].k # "none"}
           rest == {k \in DOMAIN X.ref : ~MonKey(k)}
       IN [X EXCEPT !.ref = [k \in rest \cup mon |-> IF k \in mon THEN Snew.store[k] ELSE X.ref[k]]]
\* the delivered events without those about monitoring keys
NoMonBatch(b) == {e \in {[e0 EXCEPT !.kvs = {kv \in e0.kvs : ~MonKey(kv[1])}] : e0 \in b} : e.kvs # {}}
NoMon(ev) ==
  IF ~ExtMon THEN ev
  ELSE LET f == [id \in DOMAIN ev |-> SelectSeq([i \in DOMAIN ev[id] |-> NoMonBatch(ev[id][i])], LAMBDA b : b # {})]
       IN RestrictF(f, {id \in DOMAIN f : f[id] # <<>>})

Step(r) ==
  LET res == Result(S, r, R.nacq + 1)
      o   == [rep |-> res.rep, ev |-> res.ev, ls |-> res.ls, lk |-> res.lk]
      rs  == RefStep(R, r, o)
  IN /\ S' = res.s
     /\ out' = o
     /\ R' = Overlay(Feed(rs.R, o, r), res.s)
     /\ exp' = rs.exp
     /\ act' = r

(***************************************************************************)
(* Properties                                                              *)
(***************************************************************************)
Flat(st) == [k \in {q \in DOMAIN st : st[q].k # "none"} |-> st[k]]

\* C01 (state part): the tree, read through every read operation, is the flat
\* map of the accepted writes.  KeyU / PatU: the universe the reads range over.
C01State(KeyU, PatU) ==
  ~S.down =>
  /\ Flat(S.store) = R.ref
  /\ S.len = Cardinality(DOMAIN R.ref)
  /\ \A k \in KeyU :
       /\ DoGet(S, k).rep = RefRead(R.ref, [op |-> "get", key |-> k])
       /\ DoCGet(S, k).rep = RefRead(R.ref, [op |-> "cget", key |-> k])
  /\ \A p \in PatU : DoPGet(S, p).rep = RefRead(R.ref, [op |-> "pget", pat |-> p])

\* C05 (state part): listings show exactly the keys that exist, the last list
\* an ls-subscriber received is the current listing
C05State(ParentU, PatU) ==
  ~S.down =>
  /\ \A p \in ParentU : DoLs(S, p).rep = RefRead(R.ref, [op |-> "ls", parent |-> p])
  /\ \A p \in PatU : DoPLs(S, p).rep = RefRead(R.ref, [op |-> "pls", pat |-> p])
  /\ \A s \in R.lsSubs : s.id \in DOMAIN R.lsLast /\ R.lsLast[s.id] = NextSegs(DOMAIN R.ref, s.parent)

\* the developers' assertions (C17): no value-less leaves, in both trees
CleanTrees == ~S.down => Clean(S.store) /\ CleanLocks(S)
NeverDown == ~S.down

\* C03 (state part): folding the delivered events over the snapshot gives pget
C03Fold ==
  ~S.down =>
  \A s \in R.subs : (s.id \in R.foldOk /\ s.id \in DOMAIN R.fold) =>
      R.fold[s.id] = {<<k, R.ref[k].v>> : k \in RefMatches(R.ref, s.pat)}

\* C06 (state part): one holder per key, the same in both layers; the queue of
\* the implementation is the first-come order; nobody waits or holds after its
\* session ended
C06State ==
  ~S.down =>
  /\ DOMAIN S.locks = DOMAIN R.lockq
  /\ \A k \in DOMAIN S.locks :
       /\ S.locks[k].holder = R.lockq[k].holder
       /\ [i \in 1..Len(S.locks[k].cands) |-> S.locks[k].cands[i].c] = R.lockq[k].q
       /\ \A i \in 1..Len(S.locks[k].cands) :
            S.locks[k].cands[i].reqs = PendingOf(R, k, S.locks[k].cands[i].c)

\* extended monitoring: $SYS/locks says who holds what, and nothing else
LockInfoInv ==
  (ExtMon /\ ~S.down) =>
  /\ \A k \in DOMAIN S.locks :
       LET m == <<SYS, LOCKS>> \o Esc(k) IN HasVal(S.store, m) /\ S.store[m].v = S.locks[k].holder
  /\ \A m \in DOMAIN S.store :
       (Len(m) > 2 /\ m[1] = SYS /\ m[2] = LOCKS /\ S.store[m].k # "none") =>
          \E k \in DOMAIN S.locks : m = <<SYS, LOCKS>> \o Esc(k)

\* C07 (state part): nothing of a departed session is left
C07State ==
  ~S.down =>
  /\ \A s \in S.subs : s.id[1] \in S.clients \cup {INT}
  /\ \A x \in DOMAIN S.spub : x[1] \in S.clients
  /\ \A k \in DOMAIN S.locks :
       /\ S.locks[k].holder \in S.clients
       /\ \A i \in 1..Len(S.locks[k].cands) : S.locks[k].cands[i].c \in S.clients
  /\ S.clients = R.clients
  /\ {s.id : s \in S.subs} = {s.id : s \in R.subs}

\* edge conditions: what was delivered is what the reference layer expects
EdgeRep == exp.rep.t = "any" \/ out.rep = exp.rep \/ out.rep.t = "down"
EdgeEv  == out.rep.t = "down" \/ NoMon(out.ev) = NoMon(exp.ev)   \* C03, C07, C08
EdgeLk  == out.rep.t = "down" \/ out.lk = exp.lk          \* C06
\* an acquire request gets at most one outcome
EdgeOnce == \A x \in out.lk : x[1] \notin (R.resolved \ {y[1] : y \in exp.lk})

=============================================================================
