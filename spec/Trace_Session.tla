---------------------------- MODULE Trace_Session ----------------------------
(***************************************************************************)
(* Validation of socket-level executions (several concurrent sessions over *)
(* the real line protocol, `wbverif sock-run`) against Session + CoreSpec. *)
(*                                                                         *)
(* Every session has its own log (program order of its requests with the   *)
(* terminal message each one got); there is no global order.  The state of *)
(* this specification is (core state, position vector): a step consumes    *)
(* the next record of SOME session.  TLC therefore searches for ONE        *)
(* interleaving of the session logs that                                   *)
(*   - respects each session's program order,                              *)
(*   - respects real time (a request that was answered before another one  *)
(*     was sent is applied before it: field `need`, computed from the      *)
(*     harness' logical clock),                                            *)
(*   - explains every terminal message (kind, transaction id by            *)
(*     construction of the log, content) and every subscription event,     *)
(*     in order, by the atomic application of the requests to the core.    *)
(* That is linearizability of the server with respect to CoreSpec (C02,    *)
(* C13, C15, C17).  The trace is accepted iff some path consumes every     *)
(* record of every scenario.                                               *)
(***************************************************************************)
EXTENDS Session, Json, IOUtils, TLCExt

Rec == ndJsonDeserialize(IOEnv.TRACE)
Hdr == Rec[1]
TraceMeaning ==
  [tok \in DOMAIN Hdr.meaning |->
     IF "cas" \in DOMAIN Hdr.meaning[tok]
       THEN [gg |-> <<>>, lw |-> <<>>, cas |-> [v |-> Hdr.meaning[tok].cas.v, n |-> Hdr.meaning[tok].cas.n]]
       ELSE [gg |-> Hdr.meaning[tok].gg, lw |-> Hdr.meaning[tok].lw]]

VARIABLES
  sc,     \* index into Rec of the scenario being validated
  pos,    \* session -> index of its next record
  ss,     \* session -> [proto, auth, open]
  cons,   \* subscription stream -> number of recorded events explained so far
  acq,    \* acquire request number -> <<session, record index>>
  outc,   \* acquire request number -> "granted" | "cancelled"
  used    \* deviation flags the accepted steps went through
tvars == <<vars, sc, pos, ss, cons, acq, outc, used>>

ToSetOfSeq(q) == {q[i] : i \in DOMAIN q}
Has(r, f) == f \in DOMAIN r
Sc == Rec[sc]
Sessions == DOMAIN Sc.sessions
Log(s) == Sc.sessions[s].log
\* a log source is a socket session of its own, or one task among several that share the
\* connection of a client-library handle (field cid)
ClientOfIn(x, s) == IF "cid" \in DOMAIN x.sessions[s] THEN x.sessions[s].cid ELSE s
ClientOf(s) == ClientOfIn(Sc, s)
AuthRequired == Has(Sc, "auth_required") /\ Sc.auth_required

KvSet(kvs) == {<<kvs[i][1], kvs[i][2]>> : i \in DOMAIN kvs}
RepOf(j) ==
  CASE j.t = "ok"   -> Ok
    [] j.t = "err"  -> Err(j.code)
    [] j.t = "val"  -> RVal(j.v)
    [] j.t = "cval" -> RCVal(j.v, j.n)
    [] j.t = "kvs"  -> RKvs(KvSet(j.kvs))
    [] j.t = "list" -> RList(ToSetOfSeq(j.list))
    [] j.t = "none" -> [t |-> "none"]
    [] OTHER        -> [t |-> "unknown"]

ClaimsOf(j) ==
  IF j.kind # "ok" THEN NoAuth
  ELSE [ok |-> TRUE, read |-> ToSetOfSeq(j.claims.read), write |-> ToSetOfSeq(j.claims.write), delete |-> ToSetOfSeq(j.claims.delete)]

TreeOfJson(t) == {[p |-> n.p, e |-> [k |-> n.e.k, v |-> n.e.v, n |-> n.e.n]] : n \in ToSetOfSeq(t)}
ReqOf(j) ==
  IF j.op = "import" THEN [op |-> "import", tree |-> TreeOfJson(j.tree), c |-> j.c]
  ELSE IF j.op = "auth" THEN [op |-> "auth", claims |-> ClaimsOf(j), c |-> j.c]
  \* fire-and-forget variants of the client library (no answer is awaited)
  \* the client library's swap/update: cget, then cset with the version read, again if refused.  With a
  \* transform that ignores the old value the whole call is one write at its last (accepted) cset
  ELSE IF j.op = "swap"
    THEN [op |-> "cset", key |-> j.key, val |-> j.val, c |-> j.c,
          ver |-> IF HasVal(S.store, j.key) /\ S.store[j.key].k = "cas" THEN S.store[j.key].n ELSE 0]
  ELSE IF j.op = "sub_async" THEN [op |-> "sub", tid |-> j.tid, key |-> j.key, unique |-> j.unique, live |-> j.live, c |-> j.c]
  ELSE IF j.op = "psub_async" THEN [op |-> "psub", tid |-> j.tid, pat |-> j.pat, unique |-> j.unique, live |-> j.live, c |-> j.c]
  ELSE IF j.op = "subls_async" THEN [op |-> "subls", tid |-> j.tid, parent |-> j.parent, c |-> j.c]
  ELSE IF j.op = "unsub_async" THEN [op |-> "unsub", tid |-> j.tid, c |-> j.c]
  ELSE IF j.op = "unsubls_async"
    \* client lib.rs:2200-2204 sends `unsubscribe` for it  [D_UNSUBLS_ASYNC]
    THEN [op |-> IF Flag("D_UNSUBLS_ASYNC") THEN "unsub" ELSE "unsubls", tid |-> j.tid, c |-> j.c]
  ELSE j

\* Whether the root has a child "$SYS" depends on the server-maintained keys below it (version, uptime ...:
\* environment, not modelled; present unless a wildcard delete just removed them [D_SYS_WILDCARD] and until the
\* next uptime tick): listings of the root are compared without that entry.
NoSysRoot(r, rp) ==
  IF rp.t = "list" /\ ((r.op = "ls" /\ r.parent = <<>>) \/ (r.op = "pls" /\ r.pat = <<>>))
    THEN [rp EXCEPT !.list = @ \ {"$SYS"}] ELSE rp

\* HTTP status of an error code (REST API)
HttpStatus(code) ==
  CASE code \in {E_WILD, E_MULTI, 2, E_NOTIMPL, E_NOTLOCKED, E_EMPTY} -> 400
    [] code \in {E_NOTSUB, E_NOPUB, 13} -> 422
    [] code \in {E_LOCKED, E_CAS, E_CASVER} -> 409
    [] code = E_RO -> 405
    [] code = E_NOVAL -> 404
    [] code = E_UNAUTH -> 403
    [] OTHER -> 500

IdStr(id) == id[1] \o ":" \o ToString(id[2])
Stream(id) == IF IdStr(id) \in DOMAIN Sc.streams THEN Sc.streams[IdStr(id)] ELSE <<>>
Exact(id) == \E i \in DOMAIN Sc.exact : Sc.exact[i] = IdStr(id)

\* events: plain subscriptions do not carry the key on the wire
EvSame(je, me, kind) ==
  /\ je.t = me.t
  /\ IF kind = "s" THEN Has(je, "nov") \/ {je.kvs[i][2] : i \in DOMAIN je.kvs} = {kv[2] : kv \in me.kvs}
     ELSE KvSet(je.kvs) = me.kvs

\* the batches the core delivers to subscription id in this step against the recorded
\* stream from position n on: returns the new position, or -1 if they cannot be explained
RECURSIVE Explain(_, _, _, _, _)
Explain(stream, n, batches, kind, exact) ==
  IF batches = <<>> THEN n
  ELSE LET b == Head(batches)
           k == Cardinality(b)
           avail == Len(stream) - n
       IN IF avail >= k THEN
            IF \A e \in b : \E i \in (n + 1)..(n + k) : EvSame(stream[i], e, kind)
              THEN Explain(stream, n + k, Tail(batches), kind, exact) ELSE -1
          ELSE \* the recording ends inside this batch: allowed only for streams that
               \* were not flushed by a marker (their tail may have been in flight)
            IF exact THEN -1
            ELSE IF \A i \in (n + 1)..Len(stream) : \E e \in b : EvSame(stream[i], e, kind)
              THEN Len(stream) ELSE -1

SubKind(X, Y, id) == IF \E q \in X.subs \cup Y.subs : q.id = id /\ q.kind = "s" THEN "s" ELSE "p"

CONSTANT CheckRef     \* TRUE: a step is only taken if the reference layer agrees (pass with Dev = {})
\* the server of this scenario ran with extended monitoring (overrides Core!ExtMon in the cfg)
SessExtMon == Has(Sc, "extmon") /\ Sc.extmon

\* Aggregated pattern subscriptions (C16 on a live session): the server batches their events over an
\* interval, so the recorded batches are not the batches of single steps.  For these streams cons[x] is,
\* per key, the SEQUENCE of <<kind, key, value>> the specification has delivered so far; at the end the recorded
\* events must be, key by key, that sequence (nothing lost, duplicated or reordered; the snapshot first).
Aggs == IF Has(Sc, "aggs") THEN ToSetOfSeq(Sc.aggs) ELSE {}
InitCons(x, i) == IF Has(Rec[i], "aggs") /\ x \in ToSetOfSeq(Rec[i].aggs) THEN <<>> ELSE 0
RECURSIVE SetSeq(_)
SetSeq(T) == IF T = {} THEN <<>> ELSE LET x == CHOOSE y \in T : TRUE IN <<x>> \o SetSeq(T \ {x})
FlatBatch(b) == LET triples == UNION {{<<e.t, kv[1], kv[2]>> : kv \in e.kvs} : e \in b} IN SetSeq(triples)
RECURSIVE FlatBatches(_)
FlatBatches(bs) == IF bs = <<>> THEN <<>> ELSE FlatBatch(Head(bs)) \o FlatBatches(Tail(bs))
RECURSIVE RecFlat(_)
RecFlat(stream) ==
  IF stream = <<>> THEN <<>>
  ELSE [j \in DOMAIN Head(stream).kvs |-> <<Head(stream).t, Head(stream).kvs[j][1], Head(stream).kvs[j][2]>>] \o RecFlat(Tail(stream))
\* the recorded stream of an aggregated subscription, flattened (by the post-processing: field aggflat)
RecFlatOf(x) ==
  IF Has(Sc, "aggflat") /\ x \in DOMAIN Sc.aggflat
    THEN [i \in DOMAIN Sc.aggflat[x] |-> <<Sc.aggflat[x][i][1], Sc.aggflat[x][i][2], Sc.aggflat[x][i][3]>>]
    ELSE RecFlat(Sc.streams[x])
PerKey(seq, k) == SelectSeq(seq, LAMBDA e : e[2] = k)
\* what the specification has delivered to an aggregated subscription: key -> sequence of <<kind, key, value>>
\* (per key, because only the order per key is compared: deliveries to different keys commute, and a single
\* global sequence would make every order of them a state of its own for the search)
ConsKey(f, k) == IF k \in DOMAIN f THEN f[k] ELSE <<>>
RECURSIVE AddAll(_, _)
AddAll(f, seq) ==
  IF seq = <<>> THEN f
  ELSE LET e == Head(seq)
           g == IF e[2] \in DOMAIN f THEN [f EXCEPT ![e[2]] = Append(@, e)] ELSE (e[2] :> <<e>>) @@ f
       IN AddAll(g, Tail(seq))
IsPrefixSeq(a, b) == Len(a) <= Len(b) /\ SubSeq(b, 1, Len(a)) = a
AggOK(x) ==
  LET rec == RecFlatOf(x)
      keys == {rec[i][2] : i \in DOMAIN rec} \cup DOMAIN cons[x]
  IN /\ \A i \in DOMAIN Sc.streams[x] :        \* a batch holds no key twice
          Cardinality({Sc.streams[x][i].kvs[j][1] : j \in DOMAIN Sc.streams[x][i].kvs}) = Len(Sc.streams[x][i].kvs)
     /\ \A k \in keys :
          IF \E i \in DOMAIN Sc.exact : Sc.exact[i] = x
            THEN PerKey(rec, k) = ConsKey(cons[x], k)
            ELSE IsPrefixSeq(PerKey(rec, k), ConsKey(cons[x], k))

InitScenario(i) ==
  /\ sc' = i
  /\ pos' = [s \in DOMAIN Rec[i].sessions |-> 1]
  /\ ss' = [c \in {ClientOfIn(Rec[i], s) : s \in DOMAIN Rec[i].sessions} |-> NoSess]
  /\ cons' = [x \in DOMAIN Rec[i].streams |-> InitCons(x, i)]
  /\ acq' = <<>> /\ outc' = <<>>

TraceInit ==
  /\ Init /\ used = {}
  /\ sc = 2
  /\ pos = [s \in DOMAIN Rec[2].sessions |-> 1]
  /\ ss = [c \in {ClientOfIn(Rec[2], s) : s \in DOMAIN Rec[2].sessions} |-> NoSess]
  /\ cons = [x \in DOMAIN Rec[2].streams |-> InitCons(x, 2)]
  /\ acq = <<>> /\ outc = <<>>

\* X, Y: core state before / after the step, o: observation of the step
NewCons(X, Y, o) ==
  [x \in DOMAIN cons |->
     LET ids == {id \in DOMAIN o.ev : IdStr(id) = x} IN
     IF ids = {} THEN cons[x]
     ELSE LET id == CHOOSE i \in ids : TRUE IN
          IF x \in Aggs THEN AddAll(cons[x], FlatBatches(o.ev[id]))
          ELSE Explain(Sc.streams[x], cons[x], o.ev[id], SubKind(X, Y, id), Exact(id))]
\* early pruning for aggregated streams: what the specification has delivered so far and what was recorded must
\* stay comparable key by key (the delivered sequence only grows, so an incomparable pair never recovers; without
\* this a wrong early choice of the search is only refuted by AggOK at the very end)
AggCompat(x, c) ==
  \A k \in {q \in DOMAIN c : ConsKey(c, q) # ConsKey(cons[x], q)} :
     \* (IF, not a disjunction: TLC would split a disjunction inside an action into branches of their own)
     LET a == PerKey(RecFlatOf(x), k)  b == ConsKey(c, k) IN IF IsPrefixSeq(a, b) THEN TRUE ELSE IsPrefixSeq(b, a)
DeliverOK(X, Y, o) ==
  /\ \A x \in DOMAIN cons \ Aggs : NewCons(X, Y, o)[x] # -1
  /\ \A x \in Aggs \cap DOMAIN cons : IF NewCons(X, Y, o)[x] = cons[x] THEN TRUE ELSE AggCompat(x, NewCons(X, Y, o)[x])
  /\ \A id \in DOMAIN o.ev : IdStr(id) \notin DOMAIN cons => ~Exact(id)

NewOutc(o) ==
  [q \in DOMAIN outc \cup {x[1] : x \in o.lk} |->
     IF \E x \in o.lk : x[1] = q THEN (CHOOSE x \in o.lk : x[1] = q)[2] ELSE outc[q]]

\* the reference layer's verdict on a step (used as enabling condition when CheckRef)
RefOK(Snew, Rnew, o, e) ==
  CheckRef =>
    /\ Snew.down \/ (Flat(Snew.store) = Rnew.ref /\ Snew.len = Cardinality(DOMAIN Rnew.ref))
    /\ e.rep.t = "any" \/ o.rep = e.rep \/ o.rep.t = "down"
    /\ o.rep.t = "down" \/ NoMon(o.ev) = NoMon(e.ev)
    /\ o.rep.t = "down" \/ o.lk = e.lk

\* a step that goes through the core with request r
\* res: what the implementation-shaped layer does with request r (possibly with a follow-up of the session layer)
CoreStepWith(res, r) ==
  LET o   == [rep |-> res.rep, ev |-> res.ev, ls |-> res.ls, lk |-> res.lk]
      rs  == RefStep(R, r, o)
      Rn  == Overlay(Feed(rs.R, o, r), res.s)
  IN /\ S' = res.s /\ out' = o /\ R' = Rn /\ exp' = rs.exp /\ act' = r
     /\ DeliverOK(S, res.s, o) /\ cons' = NewCons(S, res.s, o)
     /\ outc' = NewOutc(o)
     /\ RefOK(res.s, Rn, o, rs.exp)
CoreStep(r) == CoreStepWith(Result(S, r, R.nacq + 1), r)

StepSess(s) ==
  /\ pos[s] <= Len(Log(s))
  /\ LET j == Log(s)[pos[s]] IN
     /\ \A t \in DOMAIN j.need : pos[t] > j.need[t]
     /\ \A i \in 1..NFlags : TLCSet(i, FALSE)
     /\ pos' = [pos EXCEPT ![s] = @ + 1]
     /\ sc' = sc
     /\ IF j.op = "open" THEN
          \* the server registered the connection and said Welcome
          \* (the client library switches to protocol version 1 as part of its connect: field `switched`)
          /\ LET net == Has(Sc, "proto") /\ Sc.proto \in {"TCP", "WS"}
                 rq == [op |-> "connect", c |-> ClientOf(s), proto |-> IF net THEN Sc.proto ELSE "UNIX",
                        addr |-> IF net THEN "addr" ELSE "j:null"]
                 r1 == Result(S, rq, R.nacq + 1)
                 r2 == IF ExtMon /\ Has(j, "switched") /\ r1.rep = Ok
                         THEN [Then(r1, DoSet(r1.s, ClientKey(ClientOf(s), "protocolVersion"), NumT(j.switched), INT, TRUE)) EXCEPT !.rep = Ok]
                         ELSE r1
             IN CoreStepWith(r2, rq)
          /\ out'.rep = Ok
          /\ ss' = [ss EXCEPT ![ClientOf(s)] = [proto |-> 1, auth |-> NoAuth, open |-> TRUE]]
          /\ UNCHANGED acq
        ELSE IF j.op = "closed" THEN
          \* the connection is gone: session end in the core.  If it was the SERVER that ended the session
          \* (field srv), the specification must have ended it before: a request whose handling ends the
          \* session.  A server that drops sessions for no reason, or dies, is not explained.
          \* Where exactly the server ended it is not observable when the unanswered tail of the log starts
          \* with acquire-lock requests (pending ones are legitimately unanswered): the recording carries a
          \* marker behind each candidate; the session ends at the first marker at which the specification
          \* has ended it, the others are skipped; at the last one it must have ended.
          /\ (Has(j, "srv") /\ Has(j, "last")) => ~ss[ClientOf(s)].open
          /\ IF Has(j, "srv") /\ (ss[ClientOf(s)].open \/ ClientOf(s) \notin S.clients)
               THEN UNCHANGED <<S, R, out, exp, act, cons, outc, ss>>
               ELSE /\ CoreStep([op |-> "disconnect", c |-> ClientOf(s)])
                    /\ ss' = [ss EXCEPT ![ClientOf(s)].open = FALSE]
          /\ UNCHANGED acq
        ELSE IF Has(j, "rest") THEN
          \* a request of the REST API (server/axum/mod.rs): an anonymous client (a fresh uuid per request, never
          \* connected), the token - if any - travels with every request (axum/auth.rs bearer_auth), the handler
          \* checks the same privilege and pattern as the socket protocol and calls the core; errors become HTTP
          \* status codes (worterbuch-common error.rs: From<WorterbuchError> for (StatusCode, String))
          LET r  == [ReqOf(j) EXCEPT !.c = "~rest"]
              cl == IF Has(j, "kind") THEN ClaimsOf(j) ELSE NoAuth
          IN
          /\ UNCHANGED <<ss, acq>>
          /\ IF AuthRequired /\ ~cl.ok
               THEN /\ UNCHANGED <<S, R, out, exp, act, cons, outc>>
                    /\ j.rep.t = "herr" /\ j.rep.status = (IF Has(j, "kind") THEN 403 ELSE 401)
             ELSE IF AuthRequired /\ ~Granted(cl, r)
               THEN /\ UNCHANGED <<S, R, out, exp, act, cons, outc>>
                    /\ j.rep.t = "herr" /\ j.rep.status = 403
             ELSE /\ CoreStep(r)
                  /\ IF out'.rep.t = "err"
                       THEN j.rep.t = "herr" /\ j.rep.status = HttpStatus(out'.rep.code)
                       ELSE NoSysRoot(r, RepOf(j.rep)) = NoSysRoot(r, out'.rep)
        ELSE
          LET c  == ClientOf(s)
              r  == ReqOf(j)
              a  == SessApply(S, ss[c], c, r, R.nacq + 1, AuthRequired)
              o  == [rep |-> a.res.rep, ev |-> a.res.ev, ls |-> a.res.ls, lk |-> a.res.lk]
              isCore == a.kind = "reply" /\ r.op \notin {"proto", "auth", "raw", "transform"}
                        /\ ~(ss[c].proto = 0 /\ V1Only(r))
                        /\ ~(AuthRequired /\ ss[c].auth.ok /\ ~Granted(ss[c].auth, r))
              rs == RefStep(R, [r EXCEPT !.c = c], o)
              Rn == Overlay(IF isCore THEN Feed(rs.R, o, r) ELSE R, a.res.s)
              en == IF isCore THEN rs.exp ELSE NoExp
          IN
          /\ ss' = [ss EXCEPT ![c] = a.ss]
          /\ S' = a.res.s /\ out' = o /\ act' = r /\ R' = Rn /\ exp' = en
          \* the terminal message
          /\ CASE a.kind = "dead"   -> j.rep.t = "none"
               [] a.kind = "silent" -> j.rep.t = "none"
               [] a.kind = "reply-close" -> RepOf(j.rep) = o.rep
               [] a.kind = "reply"  ->
                    IF (r.op = "acquire" /\ o.rep.t = "ok") \/ j.rep.t = "async"
                      THEN TRUE      \* the confirmation comes when the lock is granted: checked at the end;
                                     \* fire-and-forget calls have no answer to compare
                      ELSE NoSysRoot(r, RepOf(j.rep)) = NoSysRoot(r, o.rep) /\ (Has(j.rep, "m") => j.rep.m = KindOf(r, o.rep))
          /\ DeliverOK(S, a.res.s, o) /\ cons' = NewCons(S, a.res.s, o)
          /\ acq' = IF isCore /\ r.op = "acquire" /\ ~HasWildcard(r.key) THEN ((R.nacq + 1) :> <<s, pos[s]>>) @@ acq ELSE acq
          /\ outc' = NewOutc(o)
          /\ isCore => RefOK(a.res.s, Rn, o, en)
     /\ used' = used \cup {FlagNames[i] : i \in {k \in 1..NFlags : TLCGet(k)}}

\* every record of the scenario has been consumed: final checks, next scenario
Finished == \A s \in Sessions : pos[s] > Len(Log(s))

FinalChecks ==
  \* every recorded event has been explained
  /\ \A x \in DOMAIN cons \ Aggs : cons[x] = Len(Sc.streams[x])
  /\ \A x \in Aggs \cap DOMAIN cons : AggOK(x)
  \* acquire-lock requests: confirmed exactly when granted, refused when cancelled, else pending
  /\ \A q \in DOMAIN acq :
       LET j == Log(acq[q][1])[acq[q][2]] IN
       IF q \in DOMAIN outc
         THEN IF outc[q] = "granted" THEN j.rep.t = "ok"
              \* cancelled: the waiting request is refused; the refusal may be missing only if the session is gone
              ELSE \/ (j.rep.t = "err" /\ j.rep.code = E_CANCELLED)
                   \/ (j.rep.t = "none" /\ ~ss[ClientOf(acq[q][1])].open)
         ELSE j.rep.t = "none"
  \* no message that is neither a terminal message of a request nor an event of a subscription
  /\ Len(Sc.extra) = 0

NextScenario ==
  /\ Finished
  /\ FinalChecks
  /\ sc < Len(Rec)
  /\ S' = InitS /\ R' = InitR
  /\ out' = [rep |-> Ok, ev |-> EmptyF, ls |-> EmptyF, lk |-> {}]
  /\ exp' = NoExp /\ act' = [op |-> "reset"]
  /\ InitScenario(sc + 1)
  /\ UNCHANGED used

\* the last scenario: a final stuttering-free step that marks acceptance
Done ==
  /\ Finished /\ FinalChecks /\ sc = Len(Rec)
  /\ PrintT("DEV-USED " \o ToString(used))
  /\ sc' = sc + 1
  /\ UNCHANGED <<vars, pos, ss, cons, acq, outc, used>>

TraceNext == (\E s \in Sessions : sc <= Len(Rec) /\ StepSess(s)) \/ (sc <= Len(Rec) /\ NextScenario) \/ (sc <= Len(Rec) /\ Done)

TraceSpec == TraceInit /\ [][TraceNext]_tvars

\* acceptance: TLC stops at the first path that consumed everything
NotAccepted == sc <= Len(Rec)
=============================================================================
