----------------------------- MODULE MC_C15tab -----------------------------
(***************************************************************************)
(* C15, the containment of a requested pattern in a granted one, decided   *)
(* exhaustively: for EVERY pair (grant g, requested pattern p) over        *)
(* {a,b,?,#} up to depth D, with g a legal pattern,                        *)
(*   Sound:    if auth::pattern_matches(g, p) (transcribed in Session.tla  *)
(*             as AuthMatches) lets the request through, every key the     *)
(*             requested pattern can reach (documented relation, keys up   *)
(*             to depth D + 1) is covered by the grant;                    *)
(*   Complete: a requested KEY (no wildcards) that the grant covers is let *)
(*             through.                                                    *)
(* The real function answers the same table (core driver, op "authmatch"); *)
(* Trace_Auth compares every answer with AuthMatches.                      *)
(***************************************************************************)
EXTENDS Auth, TLC

CONSTANT D
VARIABLE pair

KS == {"a", "b"}
PS == KS \cup {WILD, MULTI}
SeqsUpTo(A, d) == UNION {[1..n -> A] : n \in 1..d}
AllPats == SeqsUpTo(PS, D)
Grants == {g \in AllPats : Legal(g)}
AllKeys == SeqsUpTo(KS, D + 1)

Sound(g, p) == AuthMatches(g, p) => \A k \in AllKeys : Matches(p, k) => Matches(g, k)
Complete(g, p) == (~HasWildcard(p) /\ Matches(g, p)) => AuthMatches(g, p)

TabInit == pair = <<>>
TabNext == pair = <<>> /\ \E g \in Grants, p \in AllPats : pair' = <<g, p>>
TabSpec == TabInit /\ [][TabNext]_pair
C15Tab == pair = <<>> \/ (Sound(pair[1], pair[2]) /\ Complete(pair[1], pair[2]))
=============================================================================
