------------------------------ MODULE Election ------------------------------
(***************************************************************************)
(* One cluster-orchestrator node (worterbuch-cluster-orchestrator:          *)
(* lib.rs run_main, election.rs, leader.rs, follower.rs, utils.rs) in an    *)
(* environment that may send it any datagram at any time.                   *)
(* Implementation-shaped: the phases are the places where the code blocks   *)
(* on its socket:                                                           *)
(*   "wait"     election_round / support_other_candidates  (election.rs:298)*)
(*   "votes"    election_round / 'receive_votes            (election.rs:170)*)
(*   "hb"       wait_for_heartbeat after supporting a vote (election.rs:346)*)
(*   "leader"   lead()                                     (leader.rs:34)   *)
(*   "follower" follow()                                   (follower.rs:34) *)
(* Datagrams wait in `inbox` (the socket buffer) until the node receives    *)
(* them; timeouts are separate, always enabled steps.  What the node does   *)
(* to the outside is appended to per-destination queues: datagrams per      *)
(* peer, and starts/stops of the server process.                            *)
(*                                                                          *)
(* C19: the server is started in leader mode only when, in the running      *)
(* round, votes of enough DISTINCT CONFIGURED peers have been received to   *)
(* reach the quorum together with the node's own vote; it is started in     *)
(* follower mode only towards a configured peer whose heartbeat request     *)
(* (its announcement as leader) was received.                                *)
(***************************************************************************)
EXTENDS Integers, Sequences, FiniteSets, TLC

\* (the @type annotations are for Apalache, which discharges the inductive step of
\*  C19 without a bound on the datagram history - Election_ind.tla; TLC ignores them)
CONSTANTS
  \* @type: Str;
  Me,          \* this node's id
  \* @type: Set(Str);
  Peers_,      \* ids of the configured peers
  \* @type: Set(Str);
  Later_,      \* ids that are not configured at the start but may be by a later version of the config file
  \* @type: Set(Str);
  Foreign_,    \* ids that are not part of the cluster
  \* @type: Int;
  Quorum,      \* the configured quorum, or 0: none configured (default: strict majority of the configured nodes)
  \* @type: Int;
  MyPrio,      \* this node's priority value (lower value = higher priority, lib.rs:75-85)
  \* @type: Bool;
  QuorumTooLow,\* quorum below the majority and suicide_on_split_brain set (leader.rs:131)
  \* @type: Set(Str);
  EDev         \* deviations switched on

VARIABLES
  \* @type: Str;
  phase,
  \* @type: Seq({t: Str, id: Str, prio: Int});
  inbox,
  \* @type: Int;
  votes,       \* votes_in_my_favor
  \* @type: Set(Str);
  mayVote,     \* the de-duplication list of the running round (election.rs:163-168)
  \* @type: Str;
  hbFrom,      \* where wait_for_heartbeat was entered from: "wait" | "votes"
  \* @type: Str;
  leader,      \* whom the node follows (phase "follower")
  \* @type: Str -> Seq({t: Str, id: Str, prio: Int});
  net,         \* peer id -> Seq(datagram) sent to that peer, not yet observed
  \* @type: Seq({t: Str, mode: Str, to: Str});
  proc,        \* Seq of starts / stops of the server process, not yet observed
  \* the configuration at run time (config.rs: watch_config_file / reload_config, a channel of capacity 1 to the main loop)
  \* @type: Set(Str);
  cpeers,      \* the peers the node currently works with (election.rs self.peers)
  \* @type: Set(Str);
  file,        \* the peers named by the config file as it is now
  \* @type: Set(Str);
  seen,        \* the peers named by the version of the file the watcher loaded last
  \* @type: Seq(Set(Str));
  pend,        \* versions the watcher has sent and the main loop has not received yet (at most one)
  \* reference layer (not read by the actions)
  \* @type: Set(Str);
  roundVoters, \* configured peers whose vote response was received since the votes were requested
  \* @type: Set(Str);
  announced,   \* ids whose heartbeat request has been received
  \* @type: Set(Str);
  eused

evars == <<phase, inbox, votes, mayVote, hbFrom, leader, net, proc, cpeers, file, seen, pend, roundVoters, announced, eused>>
cfgvars == <<cpeers, file, seen, pend>>

AllPeers == Peers_ \cup Later_
Ids == AllPeers \cup Foreign_ \cup {Me}
\* config.rs quorum_sanity_check: the configured quorum, else node_count / 2 + 1
QuorumOf(P) == IF Quorum = 0 THEN (Cardinality(P) + 1) \div 2 + 1 ELSE Quorum
EQ == QuorumOf(cpeers)
VoteReq(id, p) == [t |-> "voteReq", id |-> id, prio |-> p]
\* (one record shape for all datagrams: prio is 0 where the protocol has none)
VoteResp(id)   == [t |-> "voteResp", id |-> id, prio |-> 0]
HbReq(id)      == [t |-> "hbReq", id |-> id, prio |-> 0]
HbResp(id)     == [t |-> "hbResp", id |-> id, prio |-> 0]
PStart(mode, to) == [t |-> "start", mode |-> mode, to |-> to]
PStop == [t |-> "stop", mode |-> "", to |-> ""]

EInit ==
  /\ phase = "wait" /\ inbox = <<>> /\ votes = 0 /\ mayVote = {} /\ hbFrom = "wait" /\ leader = Me
  /\ net = [p \in AllPeers |-> <<>>] /\ proc = <<>>
  /\ cpeers = Peers_ /\ file = Peers_ /\ seen = Peers_ /\ pend = <<>>
  /\ roundVoters = {} /\ announced = {} /\ eused = {}

ToPeer(q, p, m) == IF p \in cpeers THEN [q EXCEPT ![p] = Append(@, m)] ELSE q     \* peers.raft_addr(p) = None: nothing is sent
Broadcast(q, m) == [p \in AllPeers |-> IF p \in cpeers THEN Append(q[p], m) ELSE q[p]]

\* lead(): the server is started with --leader
BecomeLeader ==
  /\ phase' = "leader" /\ proc' = Append(proc, PStart("leader", ""))
\* follow(hb): peers.sync_addr(id) = None returns at once (follower.rs:41-45) and the main loop starts the next election
BecomeFollower(id) ==
  IF id \in cpeers
    THEN /\ phase' = "follower" /\ leader' = id
         /\ proc' = Append(proc, PStart("follower", id))
    ELSE /\ phase' = "wait" /\ UNCHANGED <<leader, proc>>

\* "Requesting peers to vote for me" (election.rs:144-161)
RequestVotes ==
  /\ votes' = 1 /\ roundVoters' = {}
  /\ IF 1 >= EQ
       THEN BecomeLeader /\ UNCHANGED <<net, mayVote>>
       ELSE /\ phase' = "votes" /\ mayVote' = cpeers
            /\ net' = Broadcast(net, VoteReq(Me, MyPrio)) /\ UNCHANGED proc

Better(p) == p <= MyPrio                     \* vote.priority >= self.prio under the reversed order

\* ---------------------------------------------------------------------------
EnvSend(m) == inbox' = Append(inbox, m) /\ UNCHANGED <<phase, votes, mayVote, hbFrom, leader, net, proc, roundVoters, announced, eused>> /\ UNCHANGED cfgvars

Recv ==
  /\ inbox # <<>>
  /\ inbox' = Tail(inbox)
  /\ LET m == Head(inbox) IN
     /\ announced' = IF m.t = "hbReq" THEN announced \cup {m.id} ELSE announced
     /\ CASE phase = "wait" ->
               IF m.t = "voteReq" /\ Better(m.prio)
                 THEN \* support_vote, then wait_for_heartbeat
                      /\ net' = ToPeer(net, m.id, VoteResp(Me)) /\ phase' = "hb" /\ hbFrom' = "wait"
                      /\ UNCHANGED <<votes, mayVote, leader, proc, roundVoters>>
               ELSE IF m.t = "hbReq" /\ m.id \in cpeers \cup {Me}                  \* is_part_of_cluster
                 THEN BecomeFollower(m.id)
                      /\ UNCHANGED <<votes, mayVote, hbFrom, net, roundVoters>>
               ELSE UNCHANGED <<phase, votes, mayVote, hbFrom, leader, net, proc, roundVoters>>
          [] phase = "votes" ->
               IF m.t = "voteResp"
                 THEN /\ roundVoters' = IF m.id \in cpeers THEN roundVoters \cup {m.id} ELSE roundVoters
                      /\ IF m.id \in mayVote
                           THEN /\ mayVote' = mayVote \ {m.id} /\ votes' = votes + 1
                                /\ IF votes + 1 >= EQ THEN BecomeLeader ELSE UNCHANGED <<phase, proc>>
                           ELSE UNCHANGED <<mayVote, votes, phase, proc>>
                      /\ UNCHANGED <<hbFrom, leader, net>>
               ELSE IF m.t = "voteReq" /\ Better(m.prio)
                 THEN /\ votes' = IF votes > 0 THEN votes - 1 ELSE 0
                      /\ net' = ToPeer(net, m.id, VoteResp(Me)) /\ phase' = "hb" /\ hbFrom' = "votes"
                      /\ UNCHANGED <<mayVote, leader, proc, roundVoters>>
               ELSE UNCHANGED <<phase, votes, mayVote, hbFrom, leader, net, proc, roundVoters>>
          [] phase = "hb" ->
               IF m.t = "hbReq"
                 THEN \* any heartbeat request ends the wait (election.rs:365-368)
                      /\ BecomeFollower(m.id)
                      /\ UNCHANGED <<votes, mayVote, hbFrom, net, roundVoters>>
               ELSE UNCHANGED <<phase, votes, mayVote, hbFrom, leader, net, proc, roundVoters>>
          [] phase = "leader" ->
               IF m.t = "hbReq" /\ QuorumTooLow
                 THEN \* split brain: drop the lead (leader.rs:131-137)
                      /\ phase' = "wait" /\ proc' = Append(proc, PStop)
                      /\ UNCHANGED <<votes, mayVote, hbFrom, leader, net, roundVoters>>
               ELSE UNCHANGED <<phase, votes, mayVote, hbFrom, leader, net, proc, roundVoters>>
          [] phase = "follower" ->
               IF m = HbReq(leader)
                 THEN /\ net' = ToPeer(net, leader, HbResp(Me))
                      /\ UNCHANGED <<phase, votes, mayVote, hbFrom, leader, proc, roundVoters>>
               ELSE UNCHANGED <<phase, votes, mayVote, hbFrom, leader, net, proc, roundVoters>>
  /\ UNCHANGED eused /\ UNCHANGED cfgvars

\* the timers (election timeout, vote timeout, heartbeat timeout, loss of the quorum of responsive peers)
\* the main loop takes a new version of the configuration out of the channel (election.rs:112-117,126-131,137-142,
\* 185-190: the peers are replaced, the quorum recomputed, the election round starts over)
TakeConfig ==
  /\ cpeers' = Head(pend) /\ pend' = <<>>
RestartRound ==
  /\ TakeConfig /\ phase' = "wait"
  /\ UNCHANGED <<votes, mayVote, hbFrom, leader, net, proc, roundVoters, file, seen>>
\* before it asks for votes the round looks into the channel once more (election.rs:137)
AskOrRestart == IF pend = <<>> THEN RequestVotes /\ UNCHANGED <<hbFrom, leader>> /\ UNCHANGED cfgvars ELSE RestartRound
Timeout ==
  /\ CASE phase = "wait"  -> AskOrRestart
       [] phase = "votes" -> phase' = "wait" /\ UNCHANGED <<votes, mayVote, hbFrom, leader, net, proc, roundVoters>> /\ UNCHANGED cfgvars
       [] phase = "hb"    -> IF hbFrom = "wait"
                               THEN AskOrRestart                                     \* falls through to the request (election.rs:126-161)
                               ELSE phase' = "wait" /\ UNCHANGED <<votes, mayVote, hbFrom, leader, net, proc, roundVoters>> /\ UNCHANGED cfgvars
       [] phase \in {"leader", "follower"} ->
               /\ phase' = "wait" /\ proc' = Append(proc, PStop)
               /\ UNCHANGED <<votes, mayVote, hbFrom, leader, net, roundVoters>> /\ UNCHANGED cfgvars
  /\ UNCHANGED <<inbox, announced, eused>>

\* the configuration file is rewritten (by an operator); only the set of peers changes, and only where no quorum is
\* configured (a configured quorum above the new node count ends the process: config.rs:195, not modelled)
EnvRewrite(P) ==
  /\ Quorum = 0 /\ file' = P
  /\ UNCHANGED <<phase, inbox, votes, mayVote, hbFrom, leader, net, proc, cpeers, seen, pend, roundVoters, announced, eused>>
\* the watcher's periodic look at the file (config.rs:433-478): a version that differs from the last one loaded is
\* sent to the main loop - or dropped, if the channel is full (try_send), and still remembered as loaded
Scan ==
  /\ file # seen /\ seen' = file
  /\ pend' = IF pend = <<>> THEN <<file>> ELSE pend
  /\ UNCHANGED <<phase, inbox, votes, mayVote, hbFrom, leader, net, proc, cpeers, file, roundVoters, announced, eused>>
\* the blocked main loop receives the new version: an election round starts over; the leader goes on with the new peers
\* (leader.rs:81-89); wait_for_heartbeat and follow() do not look at the channel
Reload ==
  /\ pend # <<>> /\ phase \in {"wait", "votes", "leader"}
  /\ IF phase = "leader"
       THEN TakeConfig /\ UNCHANGED <<phase, votes, mayVote, hbFrom, leader, net, proc, roundVoters, file, seen>>
       ELSE RestartRound
  /\ UNCHANGED <<inbox, announced, eused>>

\* the leader's heartbeat (leader.rs:70-76)
LeaderBeat ==
  /\ phase = "leader"
  /\ net' = Broadcast(net, HbReq(Me))
  /\ UNCHANGED <<phase, inbox, votes, mayVote, hbFrom, leader, proc, roundVoters, announced, eused>> /\ UNCHANGED cfgvars

\* the outside takes a datagram / notices a start or stop
TakeNet(p) == net[p] # <<>> /\ net' = [net EXCEPT ![p] = Tail(@)]
              /\ UNCHANGED <<phase, inbox, votes, mayVote, hbFrom, leader, proc, roundVoters, announced, eused>> /\ UNCHANGED cfgvars
TakeProc == proc # <<>> /\ proc' = Tail(proc)
            /\ UNCHANGED <<phase, inbox, votes, mayVote, hbFrom, leader, net, roundVoters, announced, eused>> /\ UNCHANGED cfgvars

(***************************************************************************)
(* C19                                                                     *)
(***************************************************************************)
\* the counter is what the reference layer counts
CountInv == phase = "votes" => votes = 1 + Cardinality(roundVoters) /\ mayVote = cpeers \ roundVoters
\* every step that starts the server in leader mode has the quorum of this round behind it
LeaderStep ==
  (phase' = "leader" /\ phase # "leader") => 1 + Cardinality(roundVoters') >= QuorumOf(cpeers') /\ roundVoters' \subseteq cpeers'
\* every step that starts the server in follower mode follows a configured peer that announced itself
FollowerStep ==
  (phase' = "follower" /\ phase # "follower") => leader' \in cpeers' /\ leader' \in announced'
C19Action == [][LeaderStep /\ FollowerStep]_evars
\* starts and stops alternate: at most one server process at a time
OneProcess ==
  \A i \in 1..(Len(proc) - 1) : (proc[i].t = "start") # (proc[i + 1].t = "start")
=============================================================================
