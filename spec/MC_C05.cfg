SPECIFICATION Spec
CONSTANTS
  Dev = {}
  Meaning <- MC_Meaning
  Alphabet <- MC_Alphabet
  KeyU <- MC_KeyU
  PatU <- MC_PatU
  ParentU <- MC_ParentU
  Tids_ = {1}
  Parents_ = {"", "a", "a/b", "z"}
  MaxVer = 1
  MaxAcq = 0
  MaxSubs = 1
  NeedConnect = FALSE
CONSTRAINT Bound
INVARIANTS C01InvMC C05InvMC CleanTrees NeverDown EdgeInv
CHECK_DEADLOCK FALSE
