SPECIFICATION SpecM
CONSTANTS
  Dev = {}
  Meaning <- MC_Meaning
  Followers = {"f1"}
  CAlphabet <- MC_CAlphabet
  MaxChan = 3
  Ops_ = {"set", "cset", "delete", "pdelete", "import", "connect", "disconnect"}
CONSTRAINTS BoundC VersBound
INVARIANTS C11Inv C12Inv
VIEW ViewC
CHECK_DEADLOCK FALSE
