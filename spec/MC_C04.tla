------------------------------- MODULE MC_C04 -------------------------------
(***************************************************************************)
(* C04: one wildcard relation decides queries, deletes and notifications.  *)
(* Exhaustive evaluation: for EVERY pattern over {a,b,"",?,#} up to depth  *)
(* D, on a store that holds EVERY key over {a,b,""} up to depth D, the     *)
(* three implementation-shaped traversals (store collect = pget, store     *)
(* delete = pdelete, subscriber walk = notification routing) agree with    *)
(* the documented relation Keys!Matches, and an illegal pattern is         *)
(* rejected by all of them.  One state per pattern.                        *)
(***************************************************************************)
EXTENDS Core

CONSTANT D
VARIABLE pat

KSegs == {"a", "b", ""}
PSegs == KSegs \cup {WILD, MULTI}
SeqsUpTo(A, d) == UNION {[1..n -> A] : n \in 1..d}
AllKeys == SeqsUpTo(KSegs, D) \ {<<"">>}
AllPats == SeqsUpTo(PSegs, D)

FullStore ==
  LET nodes == UNION {Prefixes(k) : k \in AllKeys}
  IN [q \in nodes |-> IF q \in AllKeys THEN PlainE("v") ELSE NoneE]
FullS == [InitS EXCEPT !.store = FullStore, !.len = Cardinality(AllKeys)]

Expected(p) == {k \in AllKeys : Matches(p, k)}

Agree(p) ==
  LET g  == DoPGet(FullS, p)
      d  == DoPDelete(FullS, p, "c1")
      sb == DoPSubscribe(FullS, "c1", 1, p, FALSE, TRUE)
      left == {q \in DOMAIN d.s.store : d.s.store[q].k # "none"}
  IN IF p = <<"">> THEN d.rep = Err(E_EMPTY)
     ELSE IF Legal(p) THEN
       /\ g.rep = RKvs({<<k, "v">> : k \in Expected(p)})
       /\ d.rep = RKvs({<<k, "v">> : k \in Expected(p)})
       /\ left = AllKeys \ Expected(p)
       /\ Clean(d.s.store) \/ left = {}
       /\ sb.rep = Ok
       /\ \A k \in AllKeys : WalkMatch(p, k) = Matches(p, k)
     ELSE
       /\ g.rep = Err(E_MULTI)
       /\ d.rep = Err(E_MULTI) /\ d.s = FullS
       /\ sb.rep = Err(E_MULTI) /\ sb.s = FullS

\* (the patterns are reached in one step from a dummy initial state: TLC evaluates invariants of initial
\*  states on its main thread, whose stack is too small for the recursion over the depth-4 store)
Init == pat = <<"~init~">>
Next == pat = <<"~init~">> /\ pat' \in AllPats
Spec == Init /\ [][Next]_pat
C04Inv == pat = <<"~init~">> \/ Agree(pat)
MC_Meaning == <<>>
=============================================================================
