SPECIFICATION TSpec
CONSTANTS
  D = 10
  BKeys = {"a", "b", "c"}
  BVals = {}
  MaxHand = 0
  MaxTime = 0
  BDev = {}
INVARIANT TraceC20
INVARIANT NotAccepted
CHECK_DEADLOCK FALSE
