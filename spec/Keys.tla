------------------------------- MODULE Keys -------------------------------
(***************************************************************************)
(* Keys, patterns and the DOCUMENTED match relation of worterbuch          *)
(* (README.md:8-10, specification.md:31-33).                               *)
(*                                                                         *)
(* A key is a non-empty sequence of segments (strings), a pattern is a     *)
(* sequence of segments in which "?" stands for exactly one level and a    *)
(* trailing "#" for one or more remaining levels.  A "#" anywhere else is  *)
(* illegal.  This module is the single source of truth for the reference   *)
(* layer of every other module; the implementation-shaped traversals       *)
(* (store collect, store delete, subscriber walk, auth containment) live   *)
(* in Core.tla / Match.tla and are compared against it.                    *)
(***************************************************************************)
EXTENDS Integers, Sequences, FiniteSets

WILD  == "?"
MULTI == "#"

IsWild(s)  == s = WILD
IsMulti(s) == s = MULTI
IsRegular(s) == s # WILD /\ s # MULTI

\* no "#" except in last position
Legal(p) == \A i \in 1..Len(p) : p[i] = MULTI => i = Len(p)

HasWildcard(p) == \E i \in 1..Len(p) : ~IsRegular(p[i])

RECURSIVE Matches(_, _)
\* the documented relation: does key k match pattern p ?
Matches(p, k) ==
  IF p = <<>> THEN k = <<>>
  ELSE IF k = <<>> THEN FALSE
  ELSE IF Head(p) = MULTI THEN Tail(p) = <<>>          \* one or more remaining levels
  ELSE (Head(p) = WILD \/ Head(p) = Head(k)) /\ Matches(Tail(p), Tail(k))

IsPrefixOf(a, b) == Len(a) <= Len(b) /\ SubSeq(b, 1, Len(a)) = a
IsStrictPrefixOf(a, b) == Len(a) < Len(b) /\ SubSeq(b, 1, Len(a)) = a
Prefixes(p) == {SubSeq(p, 1, i) : i \in 0..Len(p)}
Parent(p) == SubSeq(p, 1, Len(p) - 1)
Last(p) == p[Len(p)]

\* what parse_segments() answers for a key that contains wildcards:
\* the first offending segment decides (0 = IllegalWildcard, 1 = IllegalMultiWildcard)
RECURSIVE FirstWildErr(_)
FirstWildErr(p) ==
  IF p = <<>> THEN -1
  ELSE IF Head(p) = WILD THEN 0
  ELSE IF Head(p) = MULTI THEN 1
  ELSE FirstWildErr(Tail(p))

\* the next segments below `parent` of a set of keys (reference for ls)
NextSegs(keys, parent) ==
  {k[Len(parent) + 1] : k \in {x \in keys : IsStrictPrefixOf(parent, x)}}

=============================================================================
