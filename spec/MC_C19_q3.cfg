SPECIFICATION MCSpec
CONSTANTS
  Me = "n1"
  Peers_ = {"n2", "n3", "n4"}
  Later_ = {}
  Foreign_ = {"x9"}
  Rewrites_ = {}
  Quorum = 3
  MyPrio = 100
  QuorumTooLow = FALSE
  EDev = {}
  MaxSend = 3
  Prios_ = {100}
CONSTRAINT MCBound
INVARIANTS CountInv OneProcess
PROPERTY MCAction
CHECK_DEADLOCK FALSE
