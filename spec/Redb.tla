-------------------------------- MODULE Redb --------------------------------
(***************************************************************************)
(* Incremental persistence with the ReDB backend (persistence/redb/mod.rs, *)
(* persistence/mod.rs, worterbuch.rs:347-355,386-398,883-891,926-935).     *)
(* The core hands every accepted single-key change (and every change of a  *)
(* client's registrations) to a background writer through an ordered       *)
(* queue; the writer opens one write transaction per wake-up: the action   *)
(* at the head plus every Update/Delete that is already queued behind it   *)
(* (batch_process stops at the first action of another kind).  A stop of   *)
(* the process leaves the committed transactions; the next start loads the *)
(* table, then applies the pending grave goods and last wills.             *)
(*                                                                         *)
(* C18: the recovered state is the state after some PREFIX of the applied  *)
(* changes (all of them after a clean stop), registrations of that point   *)
(* applied.  Deviation D_REDB_VERSION (pinned code): the writer is handed  *)
(* the REQUEST's version of a cset, and load re-inserts with `force` into  *)
(* an empty node, which stores version 1 whatever was written.             *)
(***************************************************************************)
EXTENDS Integers, Sequences, FiniteSets, TLC

CONSTANTS Dev, Keys_, Clients_, MaxOps

VARIABLES
  mem,      \* the core's store: key -> [v, n] (n = 0 plain) or absent
  regs,     \* client -> grave goods (set of keys to delete) registered now ({} = none)
  applied,  \* every action handed to the writer, in order
  queue,    \* actions not yet taken by the writer
  txn,      \* actions of the open write transaction
  db,       \* committed: [tbl, gg]
  ncommit,  \* number of applied actions reflected in db
  phase,    \* "run" | "stopped" | "loaded"
  clean,    \* the stop was a clean one (everything flushed)
  rec       \* recovered store after load

vars == <<mem, regs, applied, queue, txn, db, ncommit, phase, clean, rec>>

None == [v |-> "none", n |-> -1]
Init ==
  /\ mem = [k \in Keys_ |-> None] /\ regs = [c \in Clients_ |-> {}]
  /\ applied = <<>> /\ queue = <<>> /\ txn = <<>>
  /\ db = [tbl |-> [k \in Keys_ |-> None], gg |-> [c \in Clients_ |-> {}]]
  /\ ncommit = 0 /\ phase = "run" /\ clean = FALSE /\ rec = [k \in Keys_ |-> None]

Hand(a) == applied' = Append(applied, a) /\ queue' = Append(queue, a)

\* the core applies a request and hands the change to the writer -------------
Set(k, v) ==
  /\ phase = "run" /\ Len(applied) < MaxOps /\ mem[k].n <= 0
  /\ mem' = [mem EXCEPT ![k] = [v |-> v, n |-> 0]]
  /\ Hand([op |-> "upd", k |-> k, e |-> [v |-> v, n |-> 0]])
  /\ UNCHANGED <<regs, txn, db, ncommit, phase, clean, rec>>

CSet(k, v) ==
  /\ phase = "run" /\ Len(applied) < MaxOps
  /\ LET cur == IF mem[k].n <= 0 THEN 0 ELSE mem[k].n IN
     /\ mem' = [mem EXCEPT ![k] = [v |-> v, n |-> cur + 1]]
     \* worterbuch.rs:389: the entry handed over carries the version of the REQUEST
     /\ Hand([op |-> "upd", k |-> k, e |-> [v |-> v, n |-> IF "D_REDB_VERSION" \in Dev THEN cur ELSE cur + 1]])
  /\ UNCHANGED <<regs, txn, db, ncommit, phase, clean, rec>>

Delete(k) ==
  /\ phase = "run" /\ Len(applied) < MaxOps /\ mem[k] # None
  /\ mem' = [mem EXCEPT ![k] = None]
  /\ Hand([op |-> "del", k |-> k])
  /\ UNCHANGED <<regs, txn, db, ncommit, phase, clean, rec>>

Register(c, ks) ==
  /\ phase = "run" /\ Len(applied) < MaxOps
  /\ regs' = [regs EXCEPT ![c] = ks]
  /\ Hand([op |-> "gg", c |-> c, ks |-> ks])
  /\ UNCHANGED <<mem, txn, db, ncommit, phase, clean, rec>>

\* the writer --------------------------------------------------------------
Batchable(a) == a.op \in {"upd", "del"}
WriterTake ==
  /\ phase = "run" /\ txn = <<>> /\ queue # <<>>
  /\ txn' = <<Head(queue)>> /\ queue' = Tail(queue)
  /\ UNCHANGED <<mem, regs, applied, db, ncommit, phase, clean, rec>>
\* batch_process: whatever is already queued, as long as it is an update or a delete
WriterBatch ==
  /\ phase = "run" /\ txn # <<>> /\ Batchable(txn[1]) /\ queue # <<>> /\ Batchable(Head(queue))
  /\ txn' = Append(txn, Head(queue)) /\ queue' = Tail(queue)
  /\ UNCHANGED <<mem, regs, applied, db, ncommit, phase, clean, rec>>
ApplyDb(d, a) ==
  CASE a.op = "upd" -> [d EXCEPT !.tbl[a.k] = a.e]
    [] a.op = "del" -> [d EXCEPT !.tbl[a.k] = None]
    [] a.op = "gg"  -> [d EXCEPT !.gg[a.c] = a.ks]
RECURSIVE ApplyAllDb(_, _)
ApplyAllDb(d, as) == IF as = <<>> THEN d ELSE ApplyAllDb(ApplyDb(d, Head(as)), Tail(as))
Commit ==
  /\ phase = "run" /\ txn # <<>>
  /\ db' = ApplyAllDb(db, txn) /\ ncommit' = ncommit + Len(txn) /\ txn' = <<>>
  /\ UNCHANGED <<mem, regs, applied, queue, phase, clean, rec>>

\* the process stops ---------------------------------------------------------
Crash ==
  /\ phase = "run"
  /\ phase' = "stopped" /\ clean' = FALSE /\ txn' = <<>> /\ queue' = <<>>
  /\ UNCHANGED <<mem, regs, applied, db, ncommit, rec>>
CleanStop ==
  /\ phase = "run" /\ queue = <<>> /\ txn = <<>>
  /\ phase' = "stopped" /\ clean' = TRUE
  /\ UNCHANGED <<mem, regs, applied, queue, txn, db, ncommit, rec>>

\* the next start: table, then pending grave goods -----------------------------
Buried(d) == UNION {d.gg[c] : c \in Clients_}
LoadOf(d) ==
  [k \in Keys_ |->
     IF k \in Buried(d) \/ d.tbl[k] = None THEN None
     ELSE IF d.tbl[k].n > 0 /\ "D_REDB_VERSION" \in Dev THEN [d.tbl[k] EXCEPT !.n = 1]     \* forced insert into an empty node
     ELSE d.tbl[k]]
Load ==
  /\ phase = "stopped"
  /\ rec' = LoadOf(db) /\ phase' = "loaded"
  /\ UNCHANGED <<mem, regs, applied, queue, txn, db, ncommit, clean>>

Next ==
  \/ \E k \in Keys_, v \in {"v1", "v2"} : Set(k, v) \/ CSet(k, v)
  \/ \E k \in Keys_ : Delete(k)
  \/ \E c \in Clients_, ks \in SUBSET Keys_ : Register(c, ks)
  \/ WriterTake \/ WriterBatch \/ Commit \/ Crash \/ CleanStop \/ Load
Spec == Init /\ [][Next]_vars

(***************************************************************************)
(* C18                                                                     *)
(***************************************************************************)
\* the state of the core after the first j applied actions, registrations of that point applied
RefAt(j) ==
  LET d == ApplyAllDb([tbl |-> [k \in Keys_ |-> None], gg |-> [c \in Clients_ |-> {}]], SubSeq(applied, 1, j))
      \* with the intended hand-over the table holds the core's own entries
  IN [k \in Keys_ |-> IF k \in Buried(d) THEN None ELSE d.tbl[k]]

PrefixInv ==
  phase = "loaded" =>
    /\ \E j \in 0..Len(applied) : rec = RefAt(j)
    /\ clean => rec = RefAt(Len(applied))
\* and the prefix is the committed one: nothing reordered or dropped from the middle
CutInv == phase = "loaded" => rec = RefAt(ncommit) \/ "D_REDB_VERSION" \in Dev
\* after a clean stop the recovered entries are the core's entries (value, kind, version)
VersionInv ==
  (phase = "loaded" /\ clean) =>
     \A k \in Keys_ : k \notin Buried(db) => rec[k] = mem[k]
=============================================================================
