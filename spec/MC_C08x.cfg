SPECIFICATION Spec
CONSTANTS
  Dev = {}
  Meaning <- MC_Meaning
  ExtMon <- MC_ExtMon
  Alphabet <- MC_Alphabet
  KeyU <- MC_KeyU
  PatU <- MC_PatU
  ParentU <- MC_ParentU
  MaxVer = 1
  MaxAcq = 2
  MaxSubs = 3
  NeedConnect = TRUE
CONSTRAINT Bound
INVARIANTS C01Inv C05Inv C06State C07State CleanTrees NeverDown LockInfoInv EdgeInv
CHECK_DEADLOCK FALSE
