--------------------------- MODULE Trace_Election ---------------------------
(***************************************************************************)
(* Trace validation of a real orchestrator process against Election.       *)
(* The recording is what the scripted peers did and saw, in the order the  *)
(* harness observed it:                                                    *)
(*   line 1  {"me","peers":[..],"foreign":[..],"quorum":q|-1,"prio":p,     *)
(*            "suicide":bool,"later":[..]} the node's configuration        *)
(*   {"e":"rewrite","peers":[..]}        the config file is about to be    *)
(*                                       replaced by one naming these peers*)
(*   {"e":"reset"}                       a fresh orchestrator process      *)
(*   {"e":"send","m":{..}}               a datagram sent to the node       *)
(*   {"e":"net","to":p,"m":{..}}         a datagram of the node arrived at *)
(*                                       peer p's socket                   *)
(*   {"e":"proc","m":{"t":"start",..}}   the (stub) server was started /   *)
(*   {"e":"proc","m":{"t":"stop"}}       stopped by the node               *)
(*   {"e":"term"}                        SIGTERM is about to be sent       *)
(*   {"e":"end"}                         the process has exited; every     *)
(*                                       datagram it sent has been logged  *)
(* Receiving, the timers and the leader's heartbeat are not observable:    *)
(* they are silent steps TLC has to place (bounded by the queues).         *)
(***************************************************************************)
EXTENDS Election, Json, IOUtils, SequencesExt

VARIABLES l,
  terming      \* SIGTERM is on its way / the node has shut down ("no" | "yes" | "down")
Rec == ndJsonDeserialize(IOEnv.TRACE)
Hdr == Rec[1]

TraceMe == Hdr.me
TracePeers == ToSet(Hdr.peers)
TraceForeign == ToSet(Hdr.foreign)
TraceLater == IF "later" \in DOMAIN Hdr THEN ToSet(Hdr.later) ELSE {}
Majority == (Cardinality(TracePeers) + 1) \div 2 + 1
TraceQuorum == IF Hdr.quorum = -1 THEN 0 ELSE Hdr.quorum      \* 0: none configured
TracePrio == Hdr.prio
TraceTooLow == Hdr.quorum # -1 /\ Hdr.quorum < Majority /\ Hdr.suicide

TInit == EInit /\ l = 2 /\ terming = "no"
Ev == Rec[l]
Consume == l <= Len(Rec) /\ l' = l + 1
CONSTANT MaxAhead      \* how far the explanation may run ahead of the log (per output queue)

TReset ==
  /\ Consume /\ Ev.e = "reset"
  /\ phase' = "wait" /\ inbox' = <<>> /\ votes' = 0 /\ mayVote' = {} /\ hbFrom' = "wait" /\ leader' = Me
  /\ net' = [p \in AllPeers |-> <<>>] /\ proc' = <<>>
  /\ cpeers' = Peers_ /\ file' = Peers_ /\ seen' = Peers_ /\ pend' = <<>>
  /\ roundVoters' = {} /\ announced' = {} /\ UNCHANGED eused
  /\ terming' = "no"

MsgOf(j) == IF j.t = "voteReq" THEN VoteReq(j.id, j.prio) ELSE [t |-> j.t, id |-> j.id, prio |-> 0]

TSend == Consume /\ Ev.e = "send" /\ EnvSend(MsgOf(Ev.m)) /\ UNCHANGED terming
TRewrite == Consume /\ Ev.e = "rewrite" /\ EnvRewrite(ToSet(Ev.peers)) /\ UNCHANGED terming
TNet  == /\ Consume /\ Ev.e = "net" /\ Ev.to \in AllPeers
         /\ net[Ev.to] # <<>> /\ Head(net[Ev.to]) = MsgOf(Ev.m) /\ TakeNet(Ev.to) /\ UNCHANGED terming
ProcOf(j) == IF j.t = "stop" THEN PStop
             ELSE IF j.mode = "leader" THEN PStart("leader", "")
             ELSE PStart(j.mode, j.to)
TProc == /\ Consume /\ Ev.e = "proc"
         /\ proc # <<>> /\ Head(proc) = ProcOf(Ev.m) /\ TakeProc /\ UNCHANGED terming
\* a server process that is stopped while it is still starting up leaves no trace
TUnseen == /\ Len(proc) >= 2 /\ proc[1].t = "start" /\ proc[2].t = "stop"
           /\ proc' = Tail(Tail(proc)) /\ UNCHANGED <<l, terming>>
           /\ UNCHANGED <<phase, inbox, votes, mayVote, hbFrom, leader, net, roundVoters, announced, eused>> /\ UNCHANGED cfgvars
TTerm == Consume /\ Ev.e = "term" /\ terming' = "yes" /\ UNCHANGED evars
\* graceful shutdown (tosub): the loops end, a running server is stopped
Shutdown ==
  /\ terming = "yes" /\ terming' = "down" /\ UNCHANGED l
  /\ proc' = IF phase \in {"leader", "follower"} THEN Append(proc, PStop) ELSE proc
  /\ phase' = "down"
  /\ UNCHANGED <<inbox, votes, mayVote, hbFrom, leader, net, roundVoters, announced, eused>> /\ UNCHANGED cfgvars
TEnd  == /\ Consume /\ Ev.e = "end"
         \* a process that was refused its configuration at start-up never did anything
         /\ terming = "down" \/ (Ev.rc # 0 /\ phase = "wait" /\ votes = 0)
         /\ \A p \in AllPeers : net[p] = <<>>
         /\ proc = <<>>
         /\ UNCHANGED evars /\ UNCHANGED terming

Ahead == /\ \A p \in AllPeers : Len(net[p]) < MaxAhead
         /\ Len(proc) < MaxAhead
Silent == l <= Len(Rec) /\ Ahead /\ terming # "down" /\ (Recv \/ Timeout \/ LeaderBeat \/ Scan \/ Reload) /\ UNCHANGED <<l, terming>>

TNext == TReset \/ TSend \/ TRewrite \/ TNet \/ TProc \/ TUnseen \/ TTerm \/ Shutdown \/ TEnd \/ Silent
TSpec == TInit /\ [][TNext]_<<evars, l, terming>>

TraceC19 == [][LeaderStep /\ FollowerStep]_<<evars, l, terming>>
NotAccepted == ~(l = Len(Rec) + 1)
=============================================================================
