------------------------------- MODULE MC_C03 -------------------------------
(* C03: a subscription delivers current state, then every matching change once, in order *)
EXTENDS MCBase

a == <<"a">>  ab == <<"a", "b">>  bb == <<"b", "b">>
CONSTANTS Pats_, Tids_, Flags_     \* patterns, transaction ids, <<unique, live>> combinations
Keys_ == {a, ab, bb}
Vals_ == {"v1", "v2"}
Imports_ == { {[p |-> <<>>, e |-> NoneE], [p |-> a, e |-> PlainE("v1")], [p |-> ab, e |-> PlainE("v2")]} }

PatOf(n) == CASE n = "a" -> a [] n = "a/?" -> <<"a", "?">> [] n = "a/#" -> <<"a", "#">>
              [] n = "#" -> <<"#">> [] n = "?/b" -> <<"?", "b">> [] n = "a/#/b" -> <<"a", "#", "b">>

MC_Alphabet ==
       {[op |-> "set", key |-> k, val |-> v, c |-> "c2"] : k \in Keys_, v \in Vals_}
  \cup {[op |-> "cset", key |-> ab, val |-> v, ver |-> n, c |-> "c2"] : v \in Vals_, n \in {0, 1}}
  \cup {[op |-> "delete", key |-> k, c |-> "c2"] : k \in Keys_}
  \cup {[op |-> "pdelete", pat |-> PatOf(p), c |-> "c2"] : p \in {"a/#", "#"}}
  \cup {[op |-> "publish", key |-> k, val |-> "v1"] : k \in {ab, bb}}
  \cup {[op |-> "import", tree |-> t] : t \in Imports_}
  \cup {[op |-> "sub", c |-> "c1", tid |-> t, key |-> k, unique |-> f \in {"tf","tt"}, live |-> f \in {"ft","tt"}] :
           t \in Tids_, k \in {a, ab}, f \in Flags_}
  \cup {[op |-> "psub", c |-> "c1", tid |-> t, pat |-> PatOf(p), unique |-> f \in {"tf","tt"}, live |-> f \in {"ft","tt"}] :
           t \in Tids_, p \in Pats_, f \in Flags_}
  \cup {[op |-> "unsub", c |-> "c1", tid |-> t] : t \in Tids_ \cup {9}}
  \cup {[op |-> "pget", pat |-> PatOf(p)] : p \in Pats_}

MC_KeyU == Keys_
MC_PatU == {PatOf(p) : p \in Pats_}
MC_ParentU == {<<>>, a}
MC_Meaning == <<>>
=============================================================================
