----------------------------- MODULE Trace_Auth -----------------------------
(* every recorded answer of the real auth::pattern_matches equals AuthMatches of Session.tla *)
EXTENDS Auth, Json, IOUtils, TLC

Rec == ndJsonDeserialize(IOEnv.TRACE)
VARIABLE l
AInit == l = 2
ANext == /\ l <= Len(Rec) /\ l' = l + 1
        /\ Rec[l].res = AuthMatches(Rec[l].g, Rec[l].p)
ASpec == AInit /\ [][ANext]_l
TraceAccepted ==
  LET d == TLCGet("stats").diameter IN
  IF d = Len(Rec) THEN TRUE ELSE Print(<<"TRACE-REJECTED at record", d + 1, ToJson(Rec[d + 1])>>, FALSE)
=============================================================================
