SPECIFICATION BSpec
CONSTANTS
  D = 2
  BKeys = {"a", "b"}
  BVals = {"x", "y"}
  MaxHand = 4
  MaxTime = 6
  BDev = {}
INVARIANT C20Buffer
CHECK_DEADLOCK FALSE
