SPECIFICATION Spec
CONSTANTS
  D = 2
  Keys_ = {"k1", "k2"}
  MaxEv = 4
  MaxTime = 7
INVARIANTS ContentInv DelayInv TimerInv
CHECK_DEADLOCK FALSE
