SPECIFICATION MCSpec
CONSTANTS
  Me = "n1"
  Peers_ = {"n2", "n3"}
  Later_ = {}
  Foreign_ = {"x9"}
  Rewrites_ = {}
  Quorum = 2
  MyPrio = 100
  QuorumTooLow = FALSE
  EDev = {}
  MaxSend = 3
  Prios_ = {50, 200}
CONSTRAINT MCBound
INVARIANTS CountInv OneProcess
PROPERTY MCAction
CHECK_DEADLOCK FALSE
