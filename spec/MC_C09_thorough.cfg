SPECIFICATION Spec
CONSTANTS
  Dev = {}
  Meaning <- MC_Meaning
  Alphabet <- MC_Alphabet
  KeyU <- MC_KeyU
  PatU <- MC_PatU
  ParentU <- MC_ParentU
  Layouts_ = {"v3", "v2", "v1"}
  Vals_ = {"v1", "v2", "shaped"}
  MaxVer = 3
  MaxAcq = 0
  MaxSubs = 0
  NeedConnect = TRUE
CONSTRAINT Bound
INVARIANTS C01Inv C05Inv C07State CleanTrees NeverDown EdgeInv
CHECK_DEADLOCK FALSE
