---------------------------- MODULE Trace_Persist ----------------------------
(***************************************************************************)
(* Trace validation of the real JSON persistence against Persist.tla.      *)
(* The harness (`wbverif persist-run`) runs real flushes with a crash      *)
(* armed at a chosen file-system step and the real load chain; the hook    *)
(* `verif::fs_step` records the name of every file-system step the code    *)
(* takes.  Each record must be the next step of the specification (so a    *)
(* reordered, dropped or additional file operation is rejected), and the   *)
(* generations recovered by the real load chain must be the ones the       *)
(* specification computes; C10Inv is evaluated in every state.             *)
(***************************************************************************)
EXTENDS Persist, Json, IOUtils, TLCExt

Rec == ndJsonDeserialize(IOEnv.TRACE)
VARIABLE l
tvars == <<vars, l>>

TraceInit == Init /\ l = 2

Reset ==
  /\ toggle' = FALSE
  /\ slot' = [s \in Slots |-> EmptySlot]
  /\ tmp' = "none"
  /\ mem' = 1 /\ gen' = 1
  /\ fl' = Idle /\ ld' = Idle
  /\ completed' = 0 /\ inprog' = 0
  /\ loaded' = [store |-> 0, gglw |-> -1]
  /\ crashes' = 0
  /\ step' = "init"

Consume ==
  /\ l <= Len(Rec)
  /\ l' = l + 1
  /\ LET j == Rec[l] IN
     IF j.step = "reset" THEN Reset
     ELSE IF j.step = "mutate" THEN MutateTo(j.gen)
     ELSE /\ IF j.step = "loaded" THEN LoadDoneTo(j.mem) ELSE NextBase
          /\ step' = j.step
          /\ j.step = "loaded" =>
               /\ loaded'.store = j.store
               /\ loaded'.gglw = j.gglw
               \* grave goods were applied exactly when registrations were loaded
               /\ j.gone = (j.gglw = -1 /\ j.store # 0)

TraceSpec == TraceInit /\ [][Consume]_tvars

TraceAccepted ==
  LET d == TLCGet("stats").diameter IN
  IF d - 1 = Len(Rec) - 1 THEN TRUE
  ELSE Print(<<"TRACE-REJECTED at record", d + 1, ToJson(Rec[d + 1])>>, FALSE)
=============================================================================
