-------------------------------- MODULE Auth --------------------------------
(***************************************************************************)
(* auth::pattern_matches(grant, requested)  (worterbuch/src/auth.rs:191-214), *)
(* literally: does a granted pattern let a requested key or pattern through *)
(***************************************************************************)
EXTENDS Keys

RECURSIVE AuthMatches(_, _)
AuthMatches(g, k) ==
  IF g = <<>> /\ k = <<>> THEN TRUE
  ELSE IF g # <<>> /\ Head(g) = MULTI /\ k # <<>> THEN TRUE
  ELSE IF g = <<>> \/ k = <<>> THEN FALSE
  ELSE /\ (Head(g) = WILD /\ Head(k) # MULTI) \/ Head(g) = Head(k)
       /\ AuthMatches(Tail(g), Tail(k))
=============================================================================
