---------------------------- MODULE Trace_Cluster ----------------------------
(***************************************************************************)
(* Trace validation of real leader / follower runs (`wbverif cluster-run`: *)
(* in-process servers, a real TCP sync port) against Cluster.tla.          *)
(* Quiescence is established by a marker key written on the leader and     *)
(* awaited on every follower ("drain": it travels the same ordered channel *)
(* as everything forwarded before it).                                     *)
(***************************************************************************)
EXTENDS Cluster, Json, IOUtils, TLCExt

Rec == ndJsonDeserialize(IOEnv.TRACE)
Hdr == Rec[1]
TraceMeaning == [tok \in DOMAIN Hdr.meaning |-> [gg |-> Hdr.meaning[tok].gg, lw |-> Hdr.meaning[tok].lw]]

VARIABLES l, used
tvars == <<cvars, l, used>>

ToSetOfSeq(q) == {q[i] : i \in DOMAIN q}
FlatOfJson(j) == {<<j[i][1], j[i][2], j[i][3]>> : i \in DOMAIN j}
RegsOfJson(j) == {<<j[i][1], j[i][2], j[i][3]>> : i \in DOMAIN j}
FlatSet(X) == {<<q, UserFlat(X)[q].v, UserFlat(X)[q].n>> : q \in DOMAIN UserFlat(X)}

ReqOf(j) == IF j.op = "import" THEN [op |-> "import", tree |-> {[p |-> n.p, e |-> [k |-> n.e.k, v |-> n.e.v, n |-> n.e.n]] : n \in ToSetOfSeq(j.tree)}]
            ELSE j
RepOf(j) ==
  CASE j.t = "ok"   -> Ok
    [] j.t = "err"  -> Err(j.code)
    [] j.t = "val"  -> RVal(j.v)
    [] j.t = "kvs"  -> RKvs({<<j.kvs[i][1], j.kvs[i][2]>> : i \in DOMAIN j.kvs})
    [] OTHER        -> [t |-> "unknown"]

RECURSIVE ApplyAll(_, _)
ApplyAll(X, cmds) == IF cmds = <<>> THEN X ELSE ApplyAll(ApplyCmd(X, Head(cmds)), Tail(cmds))

TraceInit == InitC /\ l = 2 /\ used = {}

Consume ==
  /\ l <= Len(Rec)
  /\ l' = l + 1
  /\ \A i \in 1..NFlags : TLCSet(i, FALSE)
  /\ LET j == Rec[l] IN
     CASE j.op = "reset" ->
            /\ L' = InitS /\ F' = [f \in Followers |-> NoFollower] /\ pstate' = [f \in Followers |-> EmptyStore]
            /\ phase' = "running" /\ N' = InitS /\ last' = [op |-> "init"]
       [] j.op = "req" ->
            /\ LeaderReq(ReqOf(j.r))
            /\ last'.rep = RepOf(j.rep)
       [] j.op = "join" -> Join(j.f)
       [] j.op = "drain" ->
            \* the marker has arrived: everything forwarded before it has been applied
            /\ j.reached
            /\ F' = [F EXCEPT ![j.f].s = ApplyAll(F[j.f].s, F[j.f].chan), ![j.f].chan = <<>>]
            /\ last' = [op |-> "drain", f |-> j.f]
            /\ UNCHANGED <<L, pstate, phase, N>>
       [] j.op = "probe" ->
            /\ FlatSet(L) = FlatOfJson(j.leader.flat)
            /\ Regs(L) = RegsOfJson(j.leader.regs)
            /\ \A f \in DOMAIN j.followers :
                 /\ FlatSet(F[f].s) = FlatOfJson(j.followers[f].flat)
                 /\ Regs(F[f].s) = RegsOfJson(j.followers[f].regs)
            /\ last' = [op |-> "probe"]
            /\ UNCHANGED <<L, F, pstate, phase, N>>
       [] j.op = "fwrite" ->
            /\ FollowerWrite(j.f, [op |-> "set", key |-> <<"a">>, val |-> "x", c |-> "c9"])
            /\ RepOf(j.rep) = Err(16)
       [] j.op = "promote" ->
            \* leader loss at a quiescent point, then stop + restart of the follower as leader
            /\ \A f \in Followers : F[f].chan = <<>>
            /\ LET r1 == BurySeq(Res(F[j.f].s, Ok), AllGG(F[j.f].s), INT)
                   r2 == WillSeq(r1, AllLW(F[j.f].s), INT)
                   flushed == IF Flag("D_FLAGS_NO_PERSIST") THEN pstate[j.f] ELSE r2.s.store
                   keep == {q \in DOMAIN flushed : q = <<>> \/ q[1] # SYS}
                   Nn == [InitS EXCEPT !.store = [q \in keep |-> flushed[q]], !.len = CountVals([q \in keep |-> flushed[q]])]
               IN /\ pstate' = [pstate EXCEPT ![j.f] = flushed]
                  /\ N' = Nn
                  /\ FlatSet(Nn) = FlatOfJson(j.flat)
            /\ phase' = "promoted"
            /\ last' = [op |-> "promote", f |-> j.f]
            /\ UNCHANGED <<L, F>>
  /\ used' = used \cup {FlagNames[i] : i \in {k \in 1..NFlags : TLCGet(k)}}
  /\ (l = Len(Rec)) => PrintT("DEV-USED " \o ToString(used'))

TraceSpec == TraceInit /\ [][Consume]_tvars

TraceAccepted ==
  LET d == TLCGet("stats").diameter IN
  IF d - 1 = Len(Rec) - 1 THEN TRUE
  ELSE Print(<<"TRACE-REJECTED at record", d + 1, ToJson(Rec[d + 1])>>, FALSE)
=============================================================================
