SPECIFICATION Spec
CONSTANTS
  D = 2
  Keys_ = {"k1", "k2"}
  MaxEv = 5
  MaxTime = 9
INVARIANTS ContentInv DelayInv TimerInv
CHECK_DEADLOCK FALSE
