------------------------------ MODULE MC_Session ------------------------------
(***************************************************************************)
(* Bounded exhaustive model of the session layer (C13, C15, session part   *)
(* of C17): a few sessions, a small alphabet of lines of every class       *)
(* (protocol switch, authorization, v1-only requests on v0, requests       *)
(* inside and outside the grants, an undecodable line), every order.       *)
(***************************************************************************)
EXTENDS Session

CONSTANTS Sess_, AuthReq, Ops_

a == <<"a">>  ab == <<"a", "b">>  b == <<"b">>
VARIABLES ss, last
mvars == <<vars, ss, last>>

ClaimSets ==
  { [ok |-> TRUE, read |-> {<<"a", "#">>}, write |-> {a}, delete |-> {}],
    [ok |-> TRUE, read |-> {<<"#">>}, write |-> {<<"#">>}, delete |-> {<<"#">>}] }

Lines ==
       {[op |-> "proto", version |-> v] : v \in {0, 1, 7}}
  \cup {[op |-> "auth", claims |-> c] : c \in ClaimSets \cup {NoAuth}}
  \cup {[op |-> "raw"], [op |-> "transform", key |-> a]}
  \cup {[op |-> "get", key |-> k] : k \in {a, ab}}
  \cup {[op |-> "set", key |-> k, val |-> "v1"] : k \in {a, ab, b}}
  \cup {[op |-> "cset", key |-> ab, val |-> "v2", ver |-> 0]}
  \cup {[op |-> "pget", pat |-> <<"a", "#">>], [op |-> "pget", pat |-> <<"#">>]}
  \cup {[op |-> "delete", key |-> ab], [op |-> "pdelete", pat |-> <<"a", "#">>]}
  \cup {[op |-> "ls", parent |-> a], [op |-> "lock", key |-> a]}
Alphabet == {l \in Lines : l.op \in Ops_}

InitM ==
  /\ Init
  /\ ss = [s \in Sess_ |-> NoSess]
  /\ last = [kind |-> "init"]

Open(s) ==
  /\ ~ss[s].open /\ s \notin S.clients
  /\ Step([op |-> "connect", c |-> s, proto |-> "UNIX", addr |-> "j:null"])
  /\ ss' = [ss EXCEPT ![s] = [proto |-> 1, auth |-> NoAuth, open |-> TRUE]]
  /\ last' = [kind |-> "open"]

Line(s, l) ==
  /\ ss[s].open
  /\ LET r  == [op |-> l.op, c |-> s] @@ l
         ap == SessApply(S, ss[s], s, r, R.nacq + 1, AuthReq)
         o  == [rep |-> ap.res.rep, ev |-> ap.res.ev, ls |-> ap.res.ls, lk |-> ap.res.lk]
         isCore == ap.kind = "reply" /\ r.op \notin {"proto", "auth", "raw", "transform"}
                   /\ ~(ss[s].proto = 0 /\ V1Only(r))
                   /\ ~(AuthReq /\ ss[s].auth.ok /\ ~Granted(ss[s].auth, r))
         rs == RefStep(R, r, o)
     IN /\ ss' = [ss EXCEPT ![s] = ap.ss]
        /\ S' = ap.res.s /\ out' = o /\ act' = r
        /\ IF isCore THEN R' = Feed(rs.R, o, r) /\ exp' = rs.exp ELSE R' = R /\ exp' = NoExp
        /\ last' = [kind |-> ap.kind, s |-> s, r |-> r, before |-> S.store, auth |-> ss[s].auth,
                    established |-> ~AuthReq \/ ss[s].auth.ok, served |-> isCore]

\* a closed connection ends the session in the core
Gone(s) ==
  /\ ~ss[s].open /\ s \in S.clients
  /\ Step([op |-> "disconnect", c |-> s])
  /\ UNCHANGED ss
  /\ last' = [kind |-> "gone"]

NextM == \E s \in Sess_ : Open(s) \/ Gone(s) \/ \E l \in Alphabet : Line(s, l)
SpecM == InitM /\ [][NextM]_mvars

\* C13: on an established session every well-formed request is answered (never silently dropped)
C13Inv ==
  last.kind = "silent" =>
    \/ ~last.established                                  \* not yet authorized: no session to speak of
    \/ last.r.op = "raw"                                  \* undecodable line
    \/ (last.r.op = "proto" /\ last.r.version \notin {0, 1})
    \/ last.r.op = "auth"                                 \* a second authorization request

\* C15: nothing is served before a valid token was presented; a served request touches
\* only keys its grants cover (documented relation); a refused one changes nothing
Changed == {k \in DOMAIN Flat(last.before) \cup DOMAIN Flat(S.store) :
              ~(k \in DOMAIN Flat(last.before) /\ k \in DOMAIN Flat(S.store) /\ Flat(last.before)[k] = Flat(S.store)[k])}
Returned == IF out.rep.t = "kvs" THEN {kv[1] : kv \in out.rep.kvs}
            ELSE IF out.rep.t \in {"val", "cval"} /\ "key" \in DOMAIN last.r THEN {last.r.key} ELSE {}
Covered(claims, priv, k) == \E g \in claims[priv] : Matches(g, k)
C15Inv ==
  (AuthReq /\ last.kind \in {"reply", "silent", "reply-close", "dead"}) =>
    /\ ~last.established => last.before = S.store
    /\ ~last.served => last.before = S.store
    /\ (last.served /\ Priv(last.r) # "none") =>
         \A k \in (Changed \cup Returned) : k[1] = SYS \/ Covered(last.auth, Priv(last.r), k)

MC_Meaning == <<>>
=============================================================================
