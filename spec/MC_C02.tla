------------------------------- MODULE MC_C02 -------------------------------
(***************************************************************************)
(* C02: compare-and-swap never loses an update.  Every interleaving, at    *)
(* request granularity, of clients running cget -> cset cycles on a shared *)
(* key, plus free cset requests with stale / future versions and plain     *)
(* sets on the CAS-protected key.                                          *)
(***************************************************************************)
EXTENDS MCBase

k == <<"cnt">>
CONSTANTS Clients_, Vers_
VARIABLES seen,      \* client -> version its last cget returned (-1: none yet)
          wins       \* set of <<version>> an accepted cset carried (while the key existed)
cvars == <<vars, seen, wins>>

InitC == Init /\ seen = [c \in Clients_ |-> -1] /\ wins = {}

CGet(c) ==
  /\ Step([op |-> "cget", key |-> k])
  /\ seen' = [seen EXCEPT ![c] = IF out'.rep.t = "cval" THEN out'.rep.n ELSE 0]
  /\ UNCHANGED wins

\* the client writes with the version it has seen (the retry loop of the client library)
CSetSeen(c) ==
  /\ seen[c] # -1
  /\ Step([op |-> "cset", key |-> k, val |-> c, ver |-> seen[c], c |-> c])
  /\ seen' = [seen EXCEPT ![c] = -1]
  /\ wins' = IF out'.rep.t = "ok" THEN wins \cup {<<seen[c], c>>} ELSE wins

\* free requests: any version, plain set, delete
Free(c) ==
  /\ \/ \E n \in Vers_ : Step([op |-> "cset", key |-> k, val |-> "x", ver |-> n, c |-> c])
     \/ Step([op |-> "set", key |-> k, val |-> "p", c |-> c])
  /\ UNCHANGED <<seen, wins>>

NextC == \E c \in Clients_ : CGet(c) \/ CSetSeen(c) \/ Free(c)
SpecC == InitC /\ [][NextC]_cvars

CurVer == IF HasVal(S.store, k) THEN S.store[k].n ELSE 0

\* a cset succeeds iff its version is the current one, and then raises it by exactly one;
\* a plain set never replaces a CAS-protected value (both through the reference layer: EdgeInv, C01Inv)
\* exactly one of the writers competing for a version wins
OneWinner == \A x, y \in wins : x[1] = y[1] => x = y
\* every acknowledged update is reflected: the version counts the accepted csets
NoLostUpdate == (~S.down /\ HasVal(S.store, k) /\ S.store[k].k = "cas") => S.store[k].n >= Cardinality({x[1] : x \in wins})

MC_Alphabet == {}
MC_KeyU == {k}
MC_PatU == {<<"#">>}
MC_ParentU == {<<>>}
MC_Meaning == <<>>
=============================================================================
