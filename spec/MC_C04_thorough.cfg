SPECIFICATION Spec
CONSTANTS
  Dev = {}
  Meaning <- MC_Meaning
  D = 4
INVARIANTS C04Inv
CHECK_DEADLOCK FALSE
