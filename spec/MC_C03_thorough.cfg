SPECIFICATION Spec
CONSTANTS
  Dev = {}
  Meaning <- MC_Meaning
  Alphabet <- MC_Alphabet
  KeyU <- MC_KeyU
  PatU <- MC_PatU
  ParentU <- MC_ParentU
  Pats_ = {"a", "a/?", "a/#", "#", "?/b", "a/#/b"}
  Tids_ = {1}
  Flags_ = {"ff", "tf", "ft", "tt"}
  MaxVer = 1
  MaxAcq = 0
  MaxSubs = 1
  NeedConnect = FALSE
CONSTRAINT Bound
INVARIANTS C01Inv C03Fold CleanTrees NeverDown EdgeInv
CHECK_DEADLOCK FALSE
