SPECIFICATION TSpec
CONSTANTS
  Me <- TraceMe
  Peers_ <- TracePeers
  Foreign_ <- TraceForeign
  Quorum <- TraceQuorum
  MyPrio <- TracePrio
  QuorumTooLow <- TraceTooLow
  EDev = {}
  MaxAhead = 6
INVARIANTS CountInv OneProcess NotAccepted
PROPERTY TraceC19
CHECK_DEADLOCK FALSE
