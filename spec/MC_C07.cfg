SPECIFICATION Spec
CONSTANTS
  Dev = {}
  Meaning <- MC_Meaning
  Alphabet <- MC_Alphabet
  KeyU <- MC_KeyU
  PatU <- MC_PatU
  ParentU <- MC_ParentU
  GGs_ = {"gg1", "gg2"}
  LWs_ = {"lw2"}
  Extra_ = {"sub"}
  MaxVer = 1
  MaxAcq = 1
  MaxSubs = 2
  NeedConnect = TRUE
CONSTRAINT Bound
INVARIANTS C01Inv C05Inv C03Fold C06State C07State CleanTrees NeverDown EdgeInv
CHECK_DEADLOCK FALSE
