SPECIFICATION TabSpec
CONSTANTS
  D = 3
INVARIANTS C15Tab
CHECK_DEADLOCK FALSE
