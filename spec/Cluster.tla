------------------------------- MODULE Cluster -------------------------------
(***************************************************************************)
(* Leader / follower replication (leader_follower/{leader,follower}.rs,    *)
(* lib.rs:414-500) and promotion of a follower (C11, C12).                 *)
(*                                                                         *)
(* The leader is a full core (Core.tla).  Per joined follower there is an  *)
(* ordered command channel; the leader FORWARDS a client write before it   *)
(* applies it (leader.rs:254-258), writes below $SYS/ are filtered; changes*)
(* of $SYS/clients/?/graveGoods|lastWill are forwarded through two         *)
(* internal unique pattern subscriptions (leader.rs:89-225).  A follower   *)
(* starts from the state export taken in the same loop turn in which its   *)
(* channel is registered (leader.rs:264-289), applies the commands in      *)
(* order as the internal client and refuses direct writes.                 *)
(*                                                                         *)
(* Deviation flags (pinned behaviour):                                     *)
(*  D_DISC_NOT_FORWARDED  burial and last will of a session that ends on   *)
(*                        the leader happen inside the core and are never  *)
(*                        forwarded                                        *)
(*  D_SYNC_DROPS_REGS     the follower's initial sync ignores the          *)
(*                        registrations that travel with the state export  *)
(*  D_IMPORT_VERSION      imported CAS entries are forwarded as forced     *)
(*                        cset, which stores version+1 / 1                  *)
(*  D_FLAGS_NO_PERSIST    started with the role flags alone a follower     *)
(*                        has persistence switched off (config.rs)         *)
(***************************************************************************)
EXTENDS Core

CONSTANTS Followers, CAlphabet, MaxChan

VARIABLES
  L,        \* the leader's core state
  F,        \* follower -> [up, s, chan]  (s: its core state, chan: commands in flight)
  pstate,   \* follower -> what its last flush wrote ("none" or a core store)
  phase,    \* "running" | "lost" (leader gone) | "promoted"
  N,        \* the new leader's core state after promotion
  last      \* last action (observations for the trace binding)

cvars == <<L, F, pstate, phase, N, last>>

NoFollower == [up |-> FALSE, s |-> InitS, chan |-> <<>>]

InitC ==
  /\ L = InitS
  /\ F = [f \in Followers |-> NoFollower]
  /\ pstate = [f \in Followers |-> EmptyStore]
  /\ phase = "running"
  /\ N = InitS
  /\ last = [op |-> "init"]

(***************************************************************************)
(* commands                                                                *)
(***************************************************************************)
SysFiltered(path) == Len(path) >= 2 /\ path[1] = SYS          \* key.starts_with("$SYS/")

\* forward_api_call with filter_sys = TRUE (lib.rs:414-484)
ForwardOf(r) ==
  CASE r.op = "set"     -> IF SysFiltered(r.key) THEN <<>> ELSE << [op |-> "set", key |-> r.key, val |-> r.val, force |-> FALSE] >>
    [] r.op = "cset"    -> IF SysFiltered(r.key) THEN <<>> ELSE << [op |-> "cset", key |-> r.key, val |-> r.val, ver |-> r.ver, force |-> FALSE] >>
    [] r.op = "delete"  -> IF SysFiltered(r.key) THEN <<>> ELSE << [op |-> "delete", key |-> r.key] >>
    [] r.op = "pdelete" -> IF SysFiltered(r.pat) THEN <<>> ELSE << [op |-> "pdelete", pat |-> r.pat] >>
    [] OTHER -> <<>>

\* the follower applies a command as the internal client (follower.rs:166-199)
ApplyCmd(X, cmd) ==
  CASE cmd.op = "set"     -> DoSet(X, cmd.key, cmd.val, INT, cmd.force).s
    [] cmd.op = "cset"    -> DoCSet(X, cmd.key, cmd.val, cmd.ver, INT, cmd.force).s
    [] cmd.op = "delete"  -> DoDelete(X, cmd.key, INT).s
    [] cmd.op = "pdelete" -> DoPDelete(X, cmd.pat, INT).s
    [] cmd.op = "put"     -> [X EXCEPT !.store = [WithPath(@, cmd.key) EXCEPT ![cmd.key] = cmd.e],
                                       !.len = CountVals([WithPath(X.store, cmd.key) EXCEPT ![cmd.key] = cmd.e])]

\* the two internal unique subscriptions of the leader: changes of the registration keys
RegKeys(X) == {q \in DOMAIN X.store : Len(q) = 4 /\ q[1] = SYS /\ q[2] = CLIENTS /\ q[4] \in {GG, LW} /\ X.store[q].k # "none"}
RECURSIVE SeqOfSet(_)
SeqOfSet(set) == IF set = {} THEN <<>> ELSE LET x == CHOOSE y \in set : TRUE IN <<x>> \o SeqOfSet(set \ {x})
RegForward(X, Y) ==
  LET sets == {q \in RegKeys(Y) : q \notin RegKeys(X) \/ X.store[q].v # Y.store[q].v}
      dels == RegKeys(X) \ RegKeys(Y)
  IN SeqOfSet({[op |-> "set", key |-> q, val |-> Y.store[q].v, force |-> FALSE] : q \in sets})
     \o SeqOfSet({[op |-> "delete", key |-> q] : q \in dels})

Broadcast(cmds) == [f \in Followers |-> IF F[f].up THEN [F[f] EXCEPT !.chan = @ \o cmds] ELSE F[f]]

UserFlat(X) == [q \in {x \in DOMAIN X.store : X.store[x].k # "none" /\ x[1] # SYS} |-> X.store[q]]
Regs(X) == {<<q[3], q[4], X.store[q].v>> : q \in RegKeys(X)}

(***************************************************************************)
(* actions                                                                 *)
(***************************************************************************)
\* a client request on the leader
LeaderReq(r) ==
  /\ phase = "running" /\ ~L.down
  /\ LET res == CASE r.op = "set" -> DoSet(L, r.key, r.val, r.c, FALSE)
                  [] r.op = "cset" -> DoCSet(L, r.key, r.val, r.ver, r.c, FALSE)
                  [] r.op = "delete" -> DoDelete(L, r.key, r.c)
                  [] r.op = "pdelete" -> DoPDelete(L, r.pat, r.c)
                  [] r.op = "connect" -> DoConnected(L, r.c, r.proto, r.addr)
                  [] r.op = "disconnect" -> DoDisconnected(L, r.c)
                  [] r.op = "import" -> DoImport(L, [q \in {n.p : n \in r.tree} |-> (CHOOSE n \in r.tree : n.p = q).e])
         \* what a session end does inside the core (intended: forwarded like client writes)
         burial == IF r.op = "disconnect" /\ ~Flag("D_DISC_NOT_FORWARDED")
                     THEN LET gg == GGOf(L, r.c)  lw == LWOf(L, r.c) IN
                          [i \in 1..Len(gg) |-> [op |-> "pdelete", pat |-> gg[i]]]
                          \o [i \in 1..Len(lw) |-> [op |-> "set", key |-> lw[i].k, val |-> lw[i].v, force |-> TRUE]]
                     ELSE <<>>
         imported == IF r.op # "import" THEN <<>>
                     ELSE LET ch == {n \in r.tree : n.e.k # "none" /\ ~(n.p \in DOMAIN L.store /\ L.store[n.p] = n.e)} IN
                          SeqOfSet({IF Flag("D_IMPORT_VERSION")
                                      THEN (IF n.e.k = "cas" THEN [op |-> "cset", key |-> n.p, val |-> n.e.v, ver |-> n.e.n, force |-> TRUE]
                                                             ELSE [op |-> "set", key |-> n.p, val |-> n.e.v, force |-> TRUE])
                                      ELSE [op |-> "put", key |-> n.p, e |-> n.e] : n \in ch})
         cmds == ForwardOf(r) \o imported \o burial \o RegForward(L, res.s)
     IN /\ L' = res.s
        /\ F' = Broadcast(cmds)
        /\ last' = [op |-> "req", r |-> r, rep |-> res.rep]
  /\ UNCHANGED <<pstate, phase, N>>

\* a follower connects: state export + channel registration in one turn of the leader loop
Join(f) ==
  /\ phase = "running" /\ ~F[f].up /\ ~L.down
  /\ LET user == {q \in DOMAIN L.store : q = <<>> \/ q[1] # SYS}
         regs == {q \in DOMAIN L.store : q = <<>> \/ q \in UNION {Prefixes(x) : x \in RegKeys(L)}}
         keep == IF Flag("D_SYNC_DROPS_REGS") \/ RegKeys(L) = {} THEN user ELSE user \cup regs
         st   == [q \in keep |-> IF q \in RegKeys(L) \/ q \in user THEN L.store[q] ELSE NoneE]
     IN F' = [F EXCEPT ![f] = [up |-> TRUE, s |-> [InitS EXCEPT !.store = st, !.len = CountVals(st)], chan |-> <<>>]]
  /\ pstate' = [pstate EXCEPT ![f] = IF Flag("D_FLAGS_NO_PERSIST") THEN pstate[f] ELSE F'[f].s.store]   \* flush after the initial sync
  /\ last' = [op |-> "join", f |-> f]
  /\ UNCHANGED <<L, phase, N>>

\* the follower applies the next command
FollowerApply(f) ==
  /\ F[f].up /\ F[f].chan # <<>>
  /\ F' = [F EXCEPT ![f].s = ApplyCmd(F[f].s, Head(F[f].chan)), ![f].chan = Tail(@)]
  /\ last' = [op |-> "apply", f |-> f]
  /\ UNCHANGED <<L, pstate, phase, N>>

\* a write offered to a follower directly: NotLeader, nothing changes
FollowerWrite(f, r) ==
  /\ F[f].up
  /\ last' = [op |-> "fwrite", f |-> f, r |-> r, rep |-> Err(16)]
  /\ UNCHANGED <<L, F, pstate, phase, N>>

\* the leader disappears - at a quiescent point of the history (C12's quantifier): every
\* follower has processed what was sent to it
LeaderLoss ==
  /\ phase = "running"
  /\ \A f \in Followers : F[f].chan = <<>>
  /\ phase' = "lost"
  /\ F' = [f \in Followers |-> [F[f] EXCEPT !.chan = <<>>]]
  /\ last' = [op |-> "loss"]
  /\ UNCHANGED <<L, pstate, N>>

\* the orchestrator stops the follower: graceful shutdown applies all registrations it knows of
\* and flushes (lib.rs:365-388), then starts a leader on the same data directory
Promote(f) ==
  /\ phase = "lost" /\ F[f].up
  /\ LET r1 == BurySeq(Res(F[f].s, Ok), AllGG(F[f].s), INT)
         r2 == WillSeq(r1, AllLW(F[f].s), INT)
         flushed == IF Flag("D_FLAGS_NO_PERSIST") THEN pstate[f] ELSE r2.s.store
         keep == {q \in DOMAIN flushed : q = <<>> \/ q[1] # SYS}
     IN /\ pstate' = [pstate EXCEPT ![f] = flushed]
        /\ N' = [InitS EXCEPT !.store = [q \in keep |-> flushed[q]], !.len = CountVals([q \in keep |-> flushed[q]])]
  /\ phase' = "promoted"
  /\ last' = [op |-> "promote", f |-> f]
  /\ UNCHANGED <<L, F>>

NextC ==
  \/ \E r \in CAlphabet : LeaderReq(r)
  \/ \E f \in Followers : Join(f) \/ FollowerApply(f) \/ Promote(f)
  \/ \E f \in Followers : FollowerWrite(f, [op |-> "set", key |-> <<"a">>, val |-> "x", c |-> "c9"])
  \/ LeaderLoss

SpecC == InitC /\ [][NextC]_cvars

BoundC == \A f \in Followers : Len(F[f].chan) <= MaxChan
ViewC == <<L, F, pstate, phase, N, IF phase = "promoted" THEN last.op ELSE "x">>

(***************************************************************************)
(* C11: once it has processed what the leader sent, a follower holds the   *)
(* leader's user keys (values, kinds, versions) and the registrations of   *)
(* the clients still connected                                             *)
(***************************************************************************)
C11Inv ==
  (phase = "running" /\ ~L.down) =>
    \A f \in Followers : (F[f].up /\ F[f].chan = <<>>) =>
      /\ UserFlat(F[f].s) = UserFlat(L)
      /\ Regs(F[f].s) = Regs(L)

(***************************************************************************)
(* C12: the promoted follower serves every replicated user key, with the   *)
(* grave goods of ALL clients that were connected to the old leader buried *)
(* and their last wills published                                          *)
(***************************************************************************)
ExpectedAfterLoss ==
  LET r1 == BurySeq(Res(L, Ok), AllGG(L), INT)
      r2 == WillSeq(r1, AllLW(L), INT)
  IN UserFlat(r2.s)
C12Inv ==
  (phase = "promoted" /\ last.op = "promote") =>
     UserFlat(N) = ExpectedAfterLoss
=============================================================================
