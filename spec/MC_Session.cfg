SPECIFICATION SpecM
CONSTANTS
  Dev = {}
  Meaning <- MC_Meaning
  Sess_ = {"c1", "c2"}
  AuthReq = TRUE
  Ops_ = {"proto", "auth", "raw", "transform", "get", "set", "cset", "pget", "delete", "pdelete"}
INVARIANTS C13Inv C15Inv CleanTrees NeverDown
CHECK_DEADLOCK FALSE
