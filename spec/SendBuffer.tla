----------------------------- MODULE SendBuffer -----------------------------
(***************************************************************************)
(* The client library's send buffer (worterbuch-client/src/buffer.rs).     *)
(* Implementation-shaped: the two capacity-one hand-over channels          *)
(* (set_tx / publish_tx) and the two tasks that drain them into            *)
(* set_buffer / publish_buffer, one delayed task per first value of a key  *)
(* (set_value / publish_value), the command channel to the connection.     *)
(* Time is discrete and advances only when no task can run (that is how    *)
(* the harness executes the code: tokio's paused clock).                   *)
(*                                                                         *)
(* C20 (second clause): every value handed over with set_later or          *)
(* publish_later is eventually sent as a set resp. publish of the latest   *)
(* value buffered for its key, and nothing else is sent.                   *)
(* Deviation D_PUB_BUFFER (pinned code, buffer.rs:94-106): the task that   *)
(* drains publish_tx inserts into set_buffer.                              *)
(***************************************************************************)
EXTENDS Integers, Sequences, FiniteSets, TLC

CONSTANTS D,           \* the delay
          BKeys, BVals, MaxHand, MaxTime,
          BDev         \* deviations switched on

VARIABLES
  now,
  chan,     \* kind -> Seq([k, v]): handed over, not yet buffered
  setBuf,   \* key -> value | NoVal
  pubBuf,
  timers,   \* set of [kind, k, due]: the delayed tasks
  outq,     \* Seq([kind, k, v]): taken out of a buffer, on its way to the connection
  sent,     \* Seq([kind, k, v]): what the connection was asked to send
  hand,     \* Seq([kind, k, v]): everything handed over so far
  bused     \* deviations this behaviour needed

bvars == <<now, chan, setBuf, pubBuf, timers, outq, sent, hand, bused>>

NoVal == "~none~"
Kinds == {"set", "pub"}

BInit ==
  /\ now = 0 /\ chan = [kd \in Kinds |-> <<>>]
  /\ setBuf = [k \in BKeys |-> NoVal] /\ pubBuf = [k \in BKeys |-> NoVal]
  /\ timers = {} /\ outq = <<>> /\ sent = <<>> /\ hand = <<>> /\ bused = {}

\* set_later / publish_later return: the value is in the hand-over channel
Hand(kd, k, v) ==
  /\ chan' = [chan EXCEPT ![kd] = Append(@, [k |-> k, v |-> v])]
  /\ hand' = Append(hand, [kind |-> kd, k |-> k, v |-> v])
  /\ UNCHANGED <<now, setBuf, pubBuf, timers, outq, sent, bused>>

\* buffer_set_messages / buffer_publish_messages: one turn of the loop
Insert(kd) ==
  /\ chan[kd] # <<>>
  /\ LET h == Head(chan[kd])
         wrong == kd = "pub" /\ "D_PUB_BUFFER" \in BDev         \* buffer.rs:96-100 inserts into set_buffer
         intoSet == kd = "set" \/ wrong
         prev == IF intoSet THEN setBuf[h.k] ELSE pubBuf[h.k]
     IN /\ setBuf' = IF intoSet THEN [setBuf EXCEPT ![h.k] = h.v] ELSE setBuf
        /\ pubBuf' = IF intoSet THEN pubBuf ELSE [pubBuf EXCEPT ![h.k] = h.v]
        /\ timers' = IF prev = NoVal THEN timers \cup {[kind |-> kd, k |-> h.k, due |-> now + D]} ELSE timers
        /\ bused' = IF wrong THEN bused \cup {"D_PUB_BUFFER"} ELSE bused
  /\ chan' = [chan EXCEPT ![kd] = Tail(@)]
  /\ UNCHANGED <<now, outq, sent, hand>>

\* set_value / publish_value wake up: take the key's value out of "their" buffer
Fire(t) ==
  /\ t \in timers /\ t.due <= now
  /\ timers' = timers \ {t}
  /\ LET v == IF t.kind = "set" THEN setBuf[t.k] ELSE pubBuf[t.k] IN
     /\ outq' = IF v = NoVal THEN outq ELSE Append(outq, [kind |-> t.kind, k |-> t.k, v |-> v])
     /\ setBuf' = IF t.kind = "set" THEN [setBuf EXCEPT ![t.k] = NoVal] ELSE setBuf
     /\ pubBuf' = IF t.kind = "pub" THEN [pubBuf EXCEPT ![t.k] = NoVal] ELSE pubBuf
  /\ UNCHANGED <<now, chan, sent, hand, bused>>

\* the connection task takes the command and sends the message
Deliver ==
  /\ outq # <<>>
  /\ sent' = Append(sent, Head(outq)) /\ outq' = Tail(outq)
  /\ UNCHANGED <<now, chan, setBuf, pubBuf, timers, hand, bused>>

Idle == /\ \A kd \in Kinds : chan[kd] = <<>>
        /\ outq = <<>>
        /\ \A t \in timers : t.due > now

\* time passes only when nothing can run, and never past a waiting task
AdvanceTo(t) ==
  /\ Idle /\ t > now /\ \A x \in timers : x.due >= t
  /\ now' = t
  /\ UNCHANGED <<chan, setBuf, pubBuf, timers, outq, sent, hand, bused>>

BNext ==
  \* (values are handed over early enough for the bounded clock to see them leave)
  \/ \E kd \in Kinds, k \in BKeys, v \in BVals : Len(hand) < MaxHand /\ now + D < MaxTime /\ Hand(kd, k, v)
  \/ \E kd \in Kinds : Insert(kd)
  \/ \E t \in timers : Fire(t)
  \/ Deliver
  \/ now < MaxTime /\ AdvanceTo(now + 1)

BSpec == BInit /\ [][BNext]_bvars
BFairSpec == BSpec /\ WF_bvars(\E kd \in Kinds : Insert(kd)) /\ WF_bvars(\E t \in timers : Fire(t))
                   /\ WF_bvars(Deliver) /\ WF_bvars(AdvanceTo(now + 1))

(***************************************************************************)
(* C20, send buffer                                                        *)
(***************************************************************************)
RECURSIVE Sel(_, _, _)
Sel(q, kd, k) ==
  IF q = <<>> THEN <<>>
  ELSE IF Head(q).kind = kd /\ Head(q).k = k THEN <<Head(q).v>> \o Sel(Tail(q), kd, k) ELSE Sel(Tail(q), kd, k)

\* a is b with some elements left out (positions, not values: values repeat)
RECURSIVE IsSubseq(_, _)
IsSubseq(a, b) ==
  IF a = <<>> THEN TRUE
  ELSE IF b = <<>> THEN FALSE
  ELSE IF Head(a) = Head(b) THEN IsSubseq(Tail(a), Tail(b)) ELSE IsSubseq(a, Tail(b))

\* nothing else is sent: per kind and key, what went out is a selection of what was handed over, in order
NothingElse ==
  \A kd \in Kinds, k \in BKeys : IsSubseq(Sel(sent \o outq, kd, k), Sel(hand, kd, k))

\* a buffered value always has its delayed task, due within the delay
TimerInv ==
  /\ \A k \in BKeys : setBuf[k] # NoVal => \E t \in timers : t.kind = "set" /\ t.k = k /\ t.due <= now + D
  /\ \A k \in BKeys : pubBuf[k] # NoVal => \E t \in timers : t.kind = "pub" /\ t.k = k /\ t.due <= now + D

Quiescent == Idle /\ timers = {}
\* once nothing is pending, the last message of every (kind, key) carries the last value handed over
LatestSent ==
  Quiescent =>
    /\ \A k \in BKeys : setBuf[k] = NoVal /\ pubBuf[k] = NoVal
    /\ \A kd \in Kinds, k \in BKeys :
         LET h == Sel(hand, kd, k)  s == Sel(sent, kd, k) IN
         h # <<>> => s # <<>> /\ s[Len(s)] = h[Len(h)]

C20Buffer == NothingElse /\ TimerInv /\ LatestSent

\* liveness (BFairSpec): the buffer always drains
EventuallyQuiet == []<>Quiescent
=============================================================================
