SPECIFICATION TraceSpec
CONSTANTS
  Dev = {}
  MaxGen = 1000
  MaxCrashes = 1000
INVARIANTS C10Inv
POSTCONDITION TraceAccepted
CHECK_DEADLOCK FALSE
