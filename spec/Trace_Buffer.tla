---------------------------- MODULE Trace_Buffer ----------------------------
(***************************************************************************)
(* Trace validation of the client library's send buffer against            *)
(* SendBuffer.  A recording is a sequence of observations in the order the *)
(* (single-threaded, paused-clock) run produced them:                      *)
(*   {"e":"reset"}                                a fresh buffer           *)
(*   {"e":"hand","kind","k","v","at"}             set_later/publish_later  *)
(*                                                returned at time at      *)
(*   {"e":"sent","kind","k","v","at"}             the connection's peer    *)
(*                                                received a set/publish   *)
(*   {"e":"quiesce","at"}                         nothing has happened for *)
(*                                                longer than the delay    *)
(* The tasks inside the buffer are not observed: Insert and Fire are       *)
(* silent steps TLC has to place.  Accepted = the last line is consumed    *)
(* (reported through the violated invariant NotAccepted).                  *)
(***************************************************************************)
EXTENDS SendBuffer, Json, IOUtils

VARIABLE l
Rec == ndJsonDeserialize(IOEnv.TRACE)

TInit == BInit /\ l = 2

Ev == Rec[l]
Consume == l <= Len(Rec) /\ l' = l + 1

TReset ==
  /\ Consume /\ Ev.e = "reset"
  /\ now' = 0 /\ chan' = [kd \in Kinds |-> <<>>]
  /\ setBuf' = [k \in BKeys |-> NoVal] /\ pubBuf' = [k \in BKeys |-> NoVal]
  /\ timers' = {} /\ outq' = <<>> /\ sent' = <<>> /\ hand' = <<>>
  /\ UNCHANGED bused

THand == Consume /\ Ev.e = "hand" /\ Ev.at = now /\ Hand(Ev.kind, Ev.k, Ev.v)

TSent ==
  /\ Consume /\ Ev.e = "sent" /\ Ev.at = now
  /\ outq # <<>> /\ Head(outq) = [kind |-> Ev.kind, k |-> Ev.k, v |-> Ev.v]
  /\ Deliver

\* the run was idle until the time of the next observation
TAdvance ==
  /\ l <= Len(Rec) /\ Ev.e # "reset" /\ Ev.at > now
  /\ LET dues == {t.due : t \in timers} \cap (now + 1)..Ev.at
         to == IF dues = {} THEN Ev.at ELSE CHOOSE d \in dues : \A e \in dues : d <= e
     IN AdvanceTo(to)
  /\ UNCHANGED l

\* the pinned code can be quiet with a value left behind in a buffer
TQuiesce ==
  /\ Consume /\ Ev.e = "quiesce" /\ Ev.at = now
  /\ Idle /\ timers = {}
  /\ UNCHANGED bvars

Silent == ((\E kd \in Kinds : Insert(kd)) \/ (\E t \in timers : Fire(t))) /\ UNCHANGED l

TNext == TReset \/ THand \/ TSent \/ TAdvance \/ TQuiesce \/ Silent
TSpec == TInit /\ [][TNext]_<<bvars, l>>

\* C20 on every state of the explanation (pass with BDev = {})
TraceC20 == BDev = {} => C20Buffer

NotAccepted ==
  ~(l = Len(Rec) + 1 /\ PrintT("DEV-USED " \o ToString(bused)))
=============================================================================
