------------------------------- MODULE MC_C11 -------------------------------
(* C11 / C12: bounded exhaustive model of leader, followers, promotion *)
EXTENDS Cluster

a == <<"a">>  ab == <<"a", "b">>  b == <<"b">>
ggk(c) == <<SYS, CLIENTS, c, GG>>
lwk(c) == <<SYS, CLIENTS, c, LW>>
CONSTANTS Ops_

MC_Meaning ==
  [tok \in {"gg1", "lw1"} |->
     CASE tok = "gg1" -> [gg |-> << <<"a", "#">> >>, lw |-> <<>>]
       [] tok = "lw1" -> [gg |-> <<>>, lw |-> << [k |-> b, v |-> "w"] >>]]

All ==
       {[op |-> "set", key |-> k, val |-> "v1", c |-> "c1"] : k \in {a, ab}}
  \cup {[op |-> "cset", key |-> b, val |-> "v2", ver |-> n, c |-> "c1"] : n \in {0, 1}}
  \cup {[op |-> "delete", key |-> a, c |-> "c1"], [op |-> "pdelete", pat |-> <<"a", "#">>, c |-> "c1"]}
  \cup {[op |-> "import", tree |-> {[p |-> <<>>, e |-> NoneE], [p |-> b, e |-> CasE("v3", 2)]}]}
  \cup {[op |-> "connect", c |-> "c1", proto |-> "TCP", addr |-> "j:null"], [op |-> "disconnect", c |-> "c1"]}
  \cup {[op |-> "set", key |-> ggk("c1"), val |-> "gg1", c |-> "c1"], [op |-> "set", key |-> lwk("c1"), val |-> "lw1", c |-> "c1"]}
MC_CAlphabet == {r \in All : r.op \in Ops_ /\ (("c" \in DOMAIN r /\ r.op # "connect") => TRUE)}

\* clients act only while connected (sessions), registrations need a session
EnabledReq(r) ==
  /\ r.op = "connect" => r.c \notin L.clients
  /\ r.op = "disconnect" => r.c \in L.clients
  /\ (r.op \in {"set", "cset", "delete", "pdelete"}) => r.c \in L.clients
NextM ==
  \/ \E r \in MC_CAlphabet : EnabledReq(r) /\ LeaderReq(r)
  \/ \E f \in Followers : Join(f) \/ FollowerApply(f) \/ Promote(f)
  \/ \E f \in Followers : FollowerWrite(f, [op |-> "set", key |-> a, val |-> "x", c |-> "c9"])
  \/ LeaderLoss
SpecM == InitC /\ [][NextM]_cvars
VersBound == \A q \in DOMAIN L.store : L.store[q].n <= 3
=============================================================================
