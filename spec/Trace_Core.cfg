SPECIFICATION TraceSpec
CONSTANTS
  Dev = {}
  Meaning <- TraceMeaning
INVARIANTS TraceC01 TraceC05 CleanTrees C03Fold C06State C07State TraceEdge
POSTCONDITION TraceAccepted
CHECK_DEADLOCK FALSE
