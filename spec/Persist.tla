------------------------------ MODULE Persist ------------------------------
(***************************************************************************)
(* JSON persistence of worterbuch (persistence/json/v3.rs, mod.rs, v2.rs,  *)
(* v1.rs): the flush procedure as a sequence of file-system steps, a       *)
(* process crash between any two of them, and the load chain v3 -> v2 ->   *)
(* v1 of the next start (which itself moves the slot selector).            *)
(*                                                                         *)
(* Content is abstracted to GENERATIONS: the in-memory state is generation *)
(* `mem` (bumped by every Mutate); a file holds the generation it was      *)
(* written from, 0 = file absent.  Store and registrations (grave goods /  *)
(* last wills) of one snapshot carry the same generation, so "a store from *)
(* one flush combined with registrations from another" is a pair of        *)
(* different generations.                                                  *)
(*                                                                         *)
(* Crash model of property C10: completed file operations persist in       *)
(* order; only *.tmp files can be torn (they are never read by the load    *)
(* chain, so their content is not modelled beyond existence).              *)
(*                                                                         *)
(* Deviation flag D_TOGGLE_FIRST = the pinned code: the selector is        *)
(* flipped BEFORE the slot is written (v3.rs:65,101 -> 282-351), the load  *)
(* fallbacks flip it again (v3.rs:202,224) and registrations are loaded    *)
(* from the slot the selector pointed at first, whatever slot the store    *)
(* came from.  Without the flag: write the idle slot (registrations first, *)
(* store last), flip the selector last, load registrations from the slot   *)
(* the store came from, fallbacks do not touch the selector.               *)
(***************************************************************************)
EXTENDS Integers, Sequences, FiniteSets, TLC

CONSTANTS Dev, MaxGen, MaxCrashes

Slots == {"a", "b"}
Other(s) == IF s = "a" THEN "b" ELSE "a"
Sel(t) == IF t THEN "a" ELSE "b"            \* .toggle present -> slot a

AsIs == "D_TOGGLE_FIRST" \in Dev

\* order in which the four files of a slot are written
Files == IF AsIs THEN <<"store", "storeSha", "gglw", "gglwSha">>
                 ELSE <<"gglw", "gglwSha", "store", "storeSha">>

VARIABLES
  toggle,     \* BOOLEAN: .toggle exists
  slot,       \* slot -> [store, storeSha, gglw, gglwSha] (generation, 0 = absent)
  tmp,        \* name of an existing *.tmp file or "none"
  mem,        \* generation of the in-memory state (0 = process down)
  gen,        \* generation counter
  fl,         \* flush in progress: [pc, w, g, i] or idle
  ld,         \* load in progress: [pc, ...] or idle
  completed,  \* generation of the last flush that ran to its end
  inprog,     \* generation of the flush that was in progress at the last crash (0 = none)
  loaded,     \* result of the last load: [store, gglw] ; gglw = -1: none applied
  crashes,
  step        \* name of the last file-system step (binds the trace of the real code)

vars == <<toggle, slot, tmp, mem, gen, fl, ld, completed, inprog, loaded, crashes, step>>

EmptySlot == [store |-> 0, storeSha |-> 0, gglw |-> 0, gglwSha |-> 0]
Idle == [pc |-> "idle"]

Init ==
  /\ toggle = FALSE
  /\ slot = [s \in Slots |-> EmptySlot]
  /\ tmp = "none"
  /\ mem = 1 /\ gen = 1
  /\ fl = Idle /\ ld = Idle
  /\ completed = 0 /\ inprog = 0
  /\ loaded = [store |-> 0, gglw |-> -1]
  /\ crashes = 0
  /\ step = "init"

Running == mem # 0 /\ ld.pc = "idle"

(***************************************************************************)
(* The application changes its state                                       *)
(***************************************************************************)
\* the new content may be one the store had before (generations identify CONTENT: two flushes
\* of equal content write byte-identical files)
MutateTo(g) ==
  /\ Running /\ gen < MaxGen
  /\ gen' = gen + 1
  /\ mem' = g
  /\ step' = "mutate"
  /\ UNCHANGED <<toggle, slot, tmp, fl, ld, completed, inprog, loaded, crashes>>

(***************************************************************************)
(* Flush: v3::synchronous / asynchronous                                   *)
(***************************************************************************)
\* file_paths(config, write = true)
FlushStart ==
  /\ Running /\ fl.pc = "idle"
  /\ IF AsIs
       THEN \* toggle_alternating_files(write): flip first, then write the slot it selects now
            /\ toggle' = ~toggle
            /\ fl' = [pc |-> "create", w |-> Sel(~toggle), g |-> mem, i |-> 1]
            /\ step' = IF toggle THEN "toggle-remove" ELSE "toggle-create"    \* = TogName(~toggle)
       ELSE /\ toggle' = toggle
            /\ fl' = [pc |-> "create", w |-> Other(Sel(toggle)), g |-> mem, i |-> 1]
            /\ step' = "pick-idle-slot"
  /\ UNCHANGED <<slot, tmp, mem, gen, ld, completed, inprog, loaded, crashes>>

\* write_to_disk: create tmp, write, (validate), rename
FlushCreate ==
  /\ mem # 0 /\ fl.pc = "create"
  /\ tmp' = Files[fl.i]
  /\ fl' = [fl EXCEPT !.pc = "write"]
  /\ step' = "create-tmp:" \o Files[fl.i]
  /\ UNCHANGED <<toggle, slot, mem, gen, ld, completed, inprog, loaded, crashes>>

FlushWrite ==
  /\ mem # 0 /\ fl.pc = "write"
  /\ fl' = [fl EXCEPT !.pc = "rename"]
  /\ step' = "write:" \o Files[fl.i]
  /\ UNCHANGED <<toggle, slot, tmp, mem, gen, ld, completed, inprog, loaded, crashes>>

FlushRename ==
  /\ mem # 0 /\ fl.pc = "rename"
  /\ slot' = [slot EXCEPT ![fl.w][Files[fl.i]] = fl.g]
  /\ tmp' = "none"
  /\ fl' = IF fl.i < 4 THEN [fl EXCEPT !.pc = "create", !.i = fl.i + 1]
           ELSE [fl EXCEPT !.pc = IF AsIs THEN "last" ELSE "commit"]
  /\ step' = "rename:" \o Files[fl.i]
  /\ UNCHANGED <<toggle, mem, gen, ld, completed, inprog, loaded, crashes>>

\* intended design only: the selector moves to the freshly written slot
FlushCommit ==
  /\ mem # 0 /\ fl.pc = "commit"
  /\ toggle' = (fl.w = "a")
  /\ fl' = [fl EXCEPT !.pc = "last"]
  /\ step' = IF fl.w = "a" THEN "toggle-create" ELSE "toggle-remove"
  /\ UNCHANGED <<slot, tmp, mem, gen, ld, completed, inprog, loaded, crashes>>

FlushEnd ==
  /\ mem # 0 /\ fl.pc = "last"
  /\ completed' = fl.g
  /\ inprog' = 0
  /\ fl' = Idle
  /\ step' = "last-persisted"
  /\ UNCHANGED <<toggle, slot, tmp, mem, gen, ld, loaded, crashes>>

(***************************************************************************)
(* The process dies, at any point of a flush or of a load                  *)
(***************************************************************************)
Crash ==
  /\ mem # 0 \/ ld.pc # "idle"
  /\ crashes < MaxCrashes
  /\ crashes' = crashes + 1
  /\ mem' = 0
  \* the snapshot that must be recoverable: the last completed flush, or the one in progress
  /\ inprog' = IF fl.pc # "idle" THEN fl.g ELSE inprog
  /\ fl' = Idle /\ ld' = Idle
  /\ step' = "crash"
  /\ UNCHANGED <<toggle, slot, tmp, gen, completed, loaded>>

(***************************************************************************)
(* Load chain of the next start                                            *)
(***************************************************************************)
StoreValid(s) == slot[s].store # 0 /\ slot[s].storeSha = slot[s].store
GglwValid(s)  == slot[s].gglw # 0 /\ slot[s].gglwSha = slot[s].gglw

Restart ==
  /\ mem = 0 /\ ld.pc = "idle"
  /\ ld' = [pc |-> "store1", s0 |-> Sel(toggle)]      \* file_paths(config, false)
  /\ step' = "load-begin"
  /\ UNCHANGED <<toggle, slot, tmp, mem, gen, fl, completed, inprog, loaded, crashes>>

\* try_load of the selected slot
LoadStore1 ==
  /\ ld.pc = "store1"
  /\ IF StoreValid(ld.s0)
       THEN ld' = [pc |-> "gglw1", s0 |-> ld.s0, from |-> ld.s0, st |-> slot[ld.s0].store]
       ELSE ld' = [pc |-> "store2", s0 |-> ld.s0]
  /\ step' = "read-store:" \o ld.s0
  /\ UNCHANGED <<toggle, slot, tmp, mem, gen, fl, completed, inprog, loaded, crashes>>

TogName(t) == IF t THEN "toggle-create" ELSE "toggle-remove"    \* name of the step that makes toggle = t

\* pinned code: file_paths(config, true) flips the selector to get at the other slot
LoadFlip2 ==
  /\ AsIs /\ ld.pc = "store2"
  /\ toggle' = ~toggle
  /\ ld' = [pc |-> "store2r", s0 |-> ld.s0]
  /\ step' = TogName(~toggle)
  /\ UNCHANGED <<slot, tmp, mem, gen, fl, completed, inprog, loaded, crashes>>

\* fallback: try_load of the other slot
LoadStore2 ==
  /\ \/ AsIs /\ ld.pc = "store2r"
     \/ ~AsIs /\ ld.pc = "store2"
  /\ LET s1 == IF AsIs THEN Sel(toggle) ELSE Other(ld.s0) IN
     /\ IF StoreValid(s1)
          THEN ld' = [pc |-> IF AsIs THEN "gglw1" ELSE "commit2", s0 |-> ld.s0, from |-> s1, st |-> slot[s1].store]
          ELSE ld' = [pc |-> "v2"]
     /\ step' = "read-store:" \o s1
  /\ UNCHANGED <<toggle, slot, tmp, mem, gen, fl, completed, inprog, loaded, crashes>>

\* intended: the selector follows a slot that actually loaded (that commits the
\* recovered snapshot: the next flush must not overwrite it)
LoadCommit2 ==
  /\ ld.pc = "commit2"
  /\ toggle' = (ld.from = "a")
  /\ ld' = [ld EXCEPT !.pc = "gglw1"]
  /\ step' = TogName(ld.from = "a")
  /\ UNCHANGED <<slot, tmp, mem, gen, fl, completed, inprog, loaded, crashes>>

\* registrations: pinned code reads the slot selected FIRST; intended: the store's slot
LoadGglw1 ==
  /\ ld.pc = "gglw1"
  /\ LET s == IF AsIs THEN ld.s0 ELSE ld.from IN
     /\ IF GglwValid(s)
          THEN ld' = [pc |-> "done", st |-> ld.st, gg |-> slot[s].gglw]
          ELSE ld' = IF AsIs THEN [pc |-> "gglw2", st |-> ld.st] ELSE [pc |-> "done", st |-> ld.st, gg |-> -1]
     /\ step' = "read-gglw:" \o s
  /\ UNCHANGED <<toggle, slot, tmp, mem, gen, fl, completed, inprog, loaded, crashes>>

\* pinned code only: second fallback, flips the selector once more ...
LoadFlipG ==
  /\ AsIs /\ ld.pc = "gglw2"
  /\ toggle' = ~toggle
  /\ ld' = [pc |-> "gglw2r", st |-> ld.st]
  /\ step' = TogName(~toggle)
  /\ UNCHANGED <<slot, tmp, mem, gen, fl, completed, inprog, loaded, crashes>>

\* ... and reads the registrations of whatever slot is selected now
LoadGglw2 ==
  /\ ld.pc = "gglw2r"
  /\ LET s == Sel(toggle) IN
     /\ ld' = [pc |-> "done", st |-> ld.st, gg |-> IF GglwValid(s) THEN slot[s].gglw ELSE -1]
     /\ step' = "read-gglw:" \o s
  /\ UNCHANGED <<toggle, slot, tmp, mem, gen, fl, completed, inprog, loaded, crashes>>

\* v3 failed: v2 looks for .store.{a,b}.json with the SAME .toggle and flips it on
\* its own fallback (v2.rs:33); v1 finds nothing and starts empty
LoadV2 ==
  /\ ld.pc = "v2"
  /\ toggle' = ~toggle
  /\ ld' = [pc |-> "done", st |-> 0, gg |-> -1]
  /\ step' = TogName(~toggle)
  /\ UNCHANGED <<slot, tmp, mem, gen, fl, completed, inprog, loaded, crashes>>

\* the server is up with the recovered state (a new in-memory generation)
LoadDoneTo(g) ==
  /\ ld.pc = "done"
  /\ loaded' = [store |-> ld.st, gglw |-> ld.gg]
  /\ ld' = Idle
  /\ gen' = gen + 1
  /\ mem' = g                            \* registrations applied, new sessions: some content
  \* what a start has recovered is from now on the snapshot a later crash must
  \* at least give back (it is what "the last completed flush" means to a user)
  /\ completed' = ld.st /\ inprog' = 0
  /\ step' = "loaded"
  /\ UNCHANGED <<toggle, slot, tmp, fl, crashes>>

NextBase ==
  \/ FlushStart \/ FlushCreate \/ FlushWrite \/ FlushRename \/ FlushCommit \/ FlushEnd
  \/ Crash \/ Restart \/ LoadStore1 \/ LoadFlip2 \/ LoadStore2 \/ LoadCommit2 \/ LoadGglw1 \/ LoadFlipG
  \/ LoadGglw2 \/ LoadV2
Next == NextBase \/ \E g \in 1..MaxGen : MutateTo(g) \/ LoadDoneTo(g)

Spec == Init /\ [][Next]_vars

Bound == gen <= MaxGen + MaxCrashes + 1
MemOK == mem \in 0..MaxGen

(***************************************************************************)
(* C10: the next start recovers exactly the last completed flush or the    *)
(* one in progress, registrations of that same snapshot applied            *)
(***************************************************************************)
C10Inv ==
  ld.pc = "done" =>
    /\ ld.st \in {completed, inprog} \ (IF completed # 0 THEN {0} ELSE {})
    /\ ld.st # 0 => ld.gg = ld.st
    /\ ld.st = 0 => ld.gg = -1

\* a load never reads a *.tmp file: structural (no action reads tmp)

\* once loaded, what was recovered is itself the state a further crash may fall
\* back to only through a new flush: the recovered snapshot stays recoverable
TypeOK ==
  /\ toggle \in BOOLEAN
  /\ \A s \in Slots : \A f \in DOMAIN slot[s] : slot[s][f] \in 0..(MaxGen + MaxCrashes + 2)
=============================================================================
