---------------------------- MODULE MC_C20buf ----------------------------
EXTENDS SendBuffer
Bound == Len(hand) <= MaxHand /\ now <= MaxTime
ViewB == <<now, chan, setBuf, pubBuf, timers, outq, sent, hand>>
=============================================================================
