SPECIFICATION TabSpec
CONSTANTS
  D = 4
INVARIANTS C15Tab
CHECK_DEADLOCK FALSE
