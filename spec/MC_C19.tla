------------------------------- MODULE MC_C19 -------------------------------
(* C19: every datagram sequence a hostile environment can send, every placement of the timeouts *)
EXTENDS Election
CONSTANTS MaxSend, Prios_,
  Rewrites_      \* versions of the peer set the config file may be rewritten to (each rewrite counts as a send)
VARIABLE nsent
Msgs == {VoteReq(id, p) : id \in Ids \ {Me}, p \in Prios_} \cup {VoteResp(id) : id \in Ids \ {Me}}
        \cup {HbReq(id) : id \in Ids} \cup {HbResp(id) : id \in Peers_}
MCInit == EInit /\ nsent = 0
MCNext ==
  \/ \E m \in Msgs : nsent < MaxSend /\ EnvSend(m) /\ nsent' = nsent + 1
  \/ \E P \in Rewrites_ : nsent < MaxSend /\ EnvRewrite(P) /\ nsent' = nsent + 1
  \/ (Recv \/ Timeout \/ LeaderBeat \/ Scan \/ Reload \/ (\E p \in AllPeers : TakeNet(p)) \/ TakeProc) /\ UNCHANGED nsent
MCSpec == MCInit /\ [][MCNext]_<<evars, nsent>>
MCBound == /\ \A p \in AllPeers : Len(net[p]) <= 2
           /\ Len(proc) <= 3
PendInv == Len(pend) <= 1 /\ cpeers \subseteq AllPeers
MCAction == [][LeaderStep /\ FollowerStep]_<<evars, nsent>>
=============================================================================
