------------------------------- MODULE MC_C05 -------------------------------
(* C05: child listings and ls-subscriptions show exactly the keys that exist *)
EXTENDS MCBase

a == <<"a">>  ab == <<"a", "b">>  abc == <<"a", "b", "c">>  b == <<"b">>
CONSTANTS Tids_, Parents_
Keys_ == {a, ab, abc, b}
ParentOf(n) == CASE n = "" -> <<>> [] n = "a" -> a [] n = "a/b" -> ab [] n = "z" -> <<"z">>
Imports_ == { {[p |-> <<>>, e |-> NoneE], [p |-> a, e |-> NoneE], [p |-> ab, e |-> PlainE("v1")]},
              {[p |-> <<>>, e |-> NoneE], [p |-> <<"z">>, e |-> PlainE("v1")]} }

MC_Alphabet ==
       {[op |-> "set", key |-> k, val |-> "v1", c |-> "c2"] : k \in Keys_}
  \cup {[op |-> "cset", key |-> k, val |-> "v1", ver |-> n, c |-> "c2"] : k \in {ab, abc}, n \in {0, 5}}
  \cup {[op |-> "delete", key |-> k, c |-> "c2"] : k \in Keys_}
  \cup {[op |-> "pdelete", pat |-> p, c |-> "c2"] : p \in {<<"a", "#">>, <<"?">>, <<"a", "?">>, <<"#">>}}
  \cup {[op |-> "import", tree |-> t] : t \in Imports_}
  \cup {[op |-> "subls", c |-> "c1", tid |-> t, parent |-> ParentOf(p)] : t \in Tids_, p \in Parents_}
  \cup {[op |-> "unsubls", c |-> "c1", tid |-> t] : t \in Tids_ \cup {9}}
  \cup {[op |-> "ls", parent |-> ParentOf(p)] : p \in Parents_}
  \cup {[op |-> "pls", pat |-> p] : p \in {<<>>, <<"?">>, a, <<"a", "?">>, <<"a", "#">>}}

MC_KeyU == Keys_
MC_PatU == {<<>>, <<"?">>, a, <<"a", "?">>}
MC_ParentU == {<<>>, a, ab, abc, b, <<"z">>}
MC_Meaning == <<>>
\* pget patterns are not the subject here
MC_PGetU == {<<"#">>}
C05InvMC == C05State(MC_ParentU, MC_PatU)
C01InvMC == C01State(MC_KeyU, MC_PGetU)
=============================================================================
