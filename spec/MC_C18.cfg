SPECIFICATION Spec
CONSTANTS
  Dev = {}
  Keys_ = {"a", "b"}
  Clients_ = {"c1"}
  MaxOps = 4
INVARIANTS PrefixInv CutInv VersionInv
CHECK_DEADLOCK FALSE
