------------------------------- MODULE Session -------------------------------
(***************************************************************************)
(* The per-connection layer of the server (server/unix.rs, tcp.rs,         *)
(* server/common/protocol/{mod,v0,v1}.rs) on top of the core:              *)
(*   - protocol version switch (v0 has no cget/cset/locks),                *)
(*   - authorization: nothing is served before a valid token was           *)
(*     presented; afterwards every request is checked against the grants   *)
(*     of the token with the privilege and pattern of its kind             *)
(*     (v0.rs:30-256, v1.rs:22-88, auth.rs:52-214),                        *)
(*   - one terminal message per request, of the kind the protocol assigns, *)
(*     carrying the request's transaction id (C13),                        *)
(*   - errors the handlers RETURN instead of ANSWER end the session        *)
(*     without a terminal message (deviation D_ERR_CLOSES).                *)
(* A session is identified with its client name.                           *)
(***************************************************************************)
EXTENDS CoreSpec, Auth

E_NOTIMPL == 19  E_UNAUTH == 14  E_CANCELLED == 22

\* AuthMatches: auth::pattern_matches(grant, requested), see Auth.tla

\* privilege and pattern the protocol layer checks per request kind
Priv(r) ==
  CASE r.op \in {"get", "cget", "pget", "sub", "psub", "ls", "pls", "subls"} -> "read"
    [] r.op \in {"set", "cset", "spubinit", "publish", "lock", "acquire", "release"} -> "write"
    [] r.op \in {"delete", "pdelete"} -> "delete"
    [] OTHER -> "none"

CheckedPattern(r) ==
  CASE r.op \in {"get", "cget", "sub", "set", "cset", "spubinit", "publish", "lock", "acquire", "release", "delete"} -> r.key
    [] r.op \in {"pget", "psub", "pdelete"} -> r.pat
    [] r.op \in {"ls", "subls"} -> Append(r.parent, WILD)
    [] r.op = "pls" -> Append(r.pat, WILD)
    [] OTHER -> <<>>

Granted(claims, r) ==
  Priv(r) = "none" \/ \E g \in claims[Priv(r)] : AuthMatches(g, CheckedPattern(r))

V1Only(r) == r.op \in {"cget", "cset", "lock", "acquire", "release"}

\* kind of the terminal message the protocol assigns to a request
KindOf(r, rep) ==
  IF rep.t = "err" THEN "err"
  ELSE CASE r.op \in {"get", "delete"} -> "state"
         [] r.op = "cget" -> "cstate"
         [] r.op \in {"pget", "pdelete"} -> "pstate"
         [] r.op \in {"ls", "pls"} -> "lsstate"
         [] r.op = "auth" -> "authorized"
         [] OTHER -> "ack"

NoAuth == [ok |-> FALSE, read |-> {}, write |-> {}, delete |-> {}]
NoSess == [proto |-> 1, auth |-> NoAuth, open |-> FALSE]

(***************************************************************************)
(* One line received on session `s` (state ss).  Returns                   *)
(*   [ss, kind, res]  kind = "reply"  : terminal message res.rep           *)
(*                           "silent" : the handler returned an error, the  *)
(*                                      session ends without an answer     *)
(*   res is a Core result record (state, events ...).                      *)
(* authRequired: the server was started with an auth token key;            *)
(* r.claims (auth requests): [ok, read, write, delete]; ok = FALSE: invalid token. *)
(***************************************************************************)
SessApply(X, ss, s, r, req, authRequired) ==
  LET keep(rep) == [ss |-> ss, kind |-> "reply", res |-> Res(X, rep)]
      close     == [ss |-> [ss EXCEPT !.open = FALSE], kind |-> "silent", res |-> Res(X, Ok)]
  IN
  IF ~ss.open THEN [ss |-> ss, kind |-> "dead", res |-> Res(X, Ok)]
  ELSE IF r.op = "proto" THEN
    IF r.version \in {0, 1}
      THEN [ss |-> [ss EXCEPT !.proto = r.version], kind |-> "reply",
            \* extended monitoring: Worterbuch::protocol_switched records the version (worterbuch.rs:1116-1124)
            res |-> IF ExtMon /\ s \in X.clients
                      THEN [DoSet(X, ClientKey(s, "protocolVersion"), NumT(r.version), INT, TRUE) EXCEPT !.rep = Ok]
                      ELSE Res(X, Ok)]
    ELSE close
  ELSE IF r.op = "auth" THEN
    IF ss.auth.ok THEN close                                   \* AlreadyAuthorized is returned
    ELSE IF ~r.claims.ok \/ ~authRequired
      THEN [ss |-> [ss EXCEPT !.open = FALSE], kind |-> "reply-close", res |-> Res(X, Err(E_UNAUTH))]
      ELSE [ss |-> [ss EXCEPT !.auth = r.claims], kind |-> "reply", res |-> Res(X, Ok)]
  ELSE IF r.op = "raw" THEN close                                    \* undecodable line: this session only
  ELSE IF r.op = "transform" \/ (ss.proto = 0 /\ V1Only(r)) THEN
    IF Flag("D_ERR_CLOSES") THEN close ELSE keep(Err(E_NOTIMPL))
  ELSE IF authRequired /\ Priv(r) # "none" /\ ~ss.auth.ok THEN close   \* AuthorizationRequired
  ELSE IF authRequired /\ ss.auth.ok /\ ~Granted(ss.auth, r) THEN keep(Err(E_UNAUTH))
  ELSE [ss |-> ss, kind |-> "reply", res |-> Result(X, [r EXCEPT !.c = s], req)]

=============================================================================
