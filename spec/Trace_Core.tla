----------------------------- MODULE Trace_Core -----------------------------
(***************************************************************************)
(* Trace validation of the real core against CoreSpec.                     *)
(*                                                                         *)
(* The trace (ndjson, environment variable TRACE) was recorded by the      *)
(* harness (`wbverif core-run`): header, then one record per request with  *)
(* the observation of the implementation.  Every record has to be a step   *)
(* of CoreSpec whose observation `out` equals the recorded one; every      *)
(* invariant of the reference layer is evaluated in every state.           *)
(* Fields the harness did not log are not compared (per-property           *)
(* attribution, DESIGN 4.3).  `{"op":"reset"}` starts a fresh instance.    *)
(***************************************************************************)
EXTENDS CoreSpec, Json, IOUtils, TLCExt

Rec == ndJsonDeserialize(IOEnv.TRACE)
Hdr == Rec[1]
TraceExtMon == "extmon" \in DOMAIN Hdr /\ Hdr.extmon
TraceMeaning ==
  [tok \in DOMAIN Hdr.meaning |->
     IF "cas" \in DOMAIN Hdr.meaning[tok]
       THEN [gg |-> <<>>, lw |-> <<>>, cas |-> [v |-> Hdr.meaning[tok].cas.v, n |-> Hdr.meaning[tok].cas.n]]
       ELSE [gg |-> Hdr.meaning[tok].gg, lw |-> Hdr.meaning[tok].lw]]

VARIABLES l,    \* index of the next record to consume
          used  \* deviation flags the accepted steps went through (Core!Flag)
tvars == <<vars, l, used>>

ToSetOfSeq(s) == {s[i] : i \in DOMAIN s}

Has(r, f) == f \in DOMAIN r

\* ---- JSON -> model values ------------------------------------------------
TreeOfJson(t) == {[p |-> n.p, e |-> [k |-> n.e.k, v |-> n.e.v, n |-> n.e.n]] : n \in ToSetOfSeq(t)}

ReqOf(j) == IF j.op = "import" THEN [op |-> "import", tree |-> TreeOfJson(j.tree)] ELSE j

KvSet(kvs) == {<<kvs[i][1], kvs[i][2]>> : i \in DOMAIN kvs}

RepOf(j) ==
  CASE j.t = "ok"   -> Ok
    [] j.t = "err"  -> Err(j.code)
    [] j.t = "val"  -> RVal(j.v)
    [] j.t = "cval" -> RCVal(j.v, j.n)
    [] j.t = "kvs"  -> RKvs(KvSet(j.kvs))
    [] j.t = "list" -> RList(ToSetOfSeq(j.list))
    [] j.t = "len"  -> RLen(j.n)
    [] j.t = "down" -> Down
    [] OTHER        -> [t |-> "unknown"]

IdStr(id) == id[1] \o ":" \o ToString(id[2])

EvOf(e) == [t |-> e.t, kvs |-> KvSet(e.kvs)]

\* the flat list of events one subscription received during the request must
\* split into the model's batches (order inside a batch is unspecified)
RECURSIVE BatchesMatch(_, _)
BatchesMatch(flat, batches) ==
  IF batches = <<>> THEN flat = <<>>
  ELSE LET n == Cardinality(Head(batches)) IN
       /\ Len(flat) >= n
       /\ {EvOf(flat[i]) : i \in 1..n} = Head(batches)
       /\ BatchesMatch(SubSeq(flat, n + 1, Len(flat)), Tail(batches))

NotOf(c, f) == RestrictF(f, {id \in DOMAIN f : id[1] # c})
EvMatch(jev, mev) ==
  /\ DOMAIN jev = {IdStr(id) : id \in DOMAIN mev}
  /\ \A id \in DOMAIN mev : BatchesMatch(jev[IdStr(id)], mev[id])

LsMatch(jls, mls) ==
  /\ DOMAIN jls = {IdStr(id) : id \in DOMAIN mls}
  /\ \A id \in DOMAIN mls :
       LET lists == jls[IdStr(id)] IN ToSetOfSeq(lists[Len(lists)]) = mls[id]

LkMatch(jlk, mlk) == {<<jlk[i][1], jlk[i][2]>> : i \in DOMAIN jlk} = mlk

ProjMatch(jp, X) ==
  /\ {<<jp.flat[i][1], jp.flat[i][2], jp.flat[i][3]>> : i \in DOMAIN jp.flat}
       = {<<k, X.store[k].v, X.store[k].n>> : k \in {q \in DOMAIN X.store : X.store[q].k # "none"}}
  /\ jp.len = X.len
  /\ ToSetOfSeq(jp.nodes) = DOMAIN X.store \ {<<>>}

\* an empty JSON object arrives as an empty record / function
ObjOrEmpty(r, f) == IF Has(r, f) THEN r[f] ELSE <<>>

\* ---- the trace next-state relation ---------------------------------------
TraceInit == Init /\ l = 2 /\ used = {}

Consume ==
  /\ l <= Len(Rec)
  /\ l' = l + 1
  /\ \A i \in 1..NFlags : TLCSet(i, FALSE)
  /\ LET j == Rec[l] IN
     IF j.op = "reset"
       THEN /\ S' = InitS /\ R' = InitR
            /\ out' = [rep |-> Ok, ev |-> EmptyF, ls |-> EmptyF, lk |-> {}]
            /\ exp' = NoExp /\ act' = [op |-> "reset"]
       ELSE /\ Step(ReqOf(j))
            /\ Has(j, "rep")  => out'.rep = RepOf(j.rep)
            \* what the core still sends to the subscriptions of a session while it ends that session
            \* is seen by nobody (and depends on the order in which it drops them): not compared
            /\ Has(j, "ev")   => EvMatch(j.ev, IF j.op = "disconnect" THEN NotOf(j.c, out'.ev) ELSE out'.ev)
            /\ Has(j, "ls")   => LsMatch(j.ls, IF j.op = "disconnect" THEN NotOf(j.c, out'.ls) ELSE out'.ls)
            /\ Has(j, "lk")   => LkMatch(j.lk, out'.lk)
            /\ Has(j, "proj") => ProjMatch(j.proj, S')
  /\ used' = used \cup {FlagNames[i] : i \in {j \in 1..NFlags : TLCGet(j)}}
  /\ (l = Len(Rec)) => PrintT("DEV-USED " \o ToString(used'))
  \* debugging aid (bin/dbgcore.py): what the specification does with the last record's request
  /\ (l = Len(Rec) /\ "WBDBG" \in DOMAIN IOEnv) =>
        PrintT("DBG " \o ToString(<<out', {<<q, S'.store[q].v, S'.store[q].n>> : q \in {x \in DOMAIN S'.store : S'.store[x].k # "none"}}, S'.len>>))

TraceSpec == TraceInit /\ [][Consume]_tvars

\* ---- reference-layer invariants on the trace (pass with Dev = {}) --------
TraceC01 == ~S.down => (Flat(S.store) = R.ref /\ S.len = Cardinality(DOMAIN R.ref))
TraceC05 == ~S.down => \A s \in R.lsSubs : s.id \in DOMAIN R.lsLast /\ R.lsLast[s.id] = NextSegs(DOMAIN R.ref, s.parent)
TraceEdge == EdgeRep /\ EdgeEv /\ EdgeLk /\ EdgeOnce

\* ---- acceptance ------------------------------------------------------------
TraceAccepted ==
  LET d == TLCGet("stats").diameter IN
  IF d - 1 = Len(Rec) - 1
    THEN TRUE
  ELSE Print(<<"TRACE-REJECTED at record", d + 1, ToJson(Rec[d + 1])>>, FALSE)
=============================================================================
