SPECIFICATION Spec
CONSTANTS
  Dev = {}
  Meaning <- MC_Meaning
  Alphabet <- MC_Alphabet
  KeyU <- MC_KeyU
  PatU <- MC_PatU
  ParentU <- MC_ParentU
  Targets_ = {"s", "gg2", "own"}
  Pats_ = {"?/s", "#", "$SYS/#"}
  MaxVer = 1
  MaxAcq = 0
  MaxSubs = 1
  NeedConnect = TRUE
CONSTRAINT Bound
INVARIANTS C01Inv C07State CleanTrees NeverDown EdgeInv
CHECK_DEADLOCK FALSE
