SPECIFICATION MCSpec
CONSTANTS
  Me = "n1"
  Peers_ = {"n2", "n3"}
  Later_ = {"n4"}
  Foreign_ = {"x9"}
  Rewrites_ = {{"n2"}, {"n2", "n3", "n4"}, {}}
  Quorum = 0
  MyPrio = 100
  QuorumTooLow = FALSE
  EDev = {}
  MaxSend = 3
  Prios_ = {50}
CONSTRAINT MCBound
INVARIANTS CountInv OneProcess PendInv
PROPERTY MCAction
CHECK_DEADLOCK FALSE
