SPECIFICATION Spec
CONSTANTS
  Dev = {}
  Keys_ = {"a", "b"}
  Clients_ = {"c1"}
  MaxOps = 5
INVARIANTS PrefixInv CutInv VersionInv
CHECK_DEADLOCK FALSE
