SPECIFICATION Spec
CONSTANTS
  Dev = {}
  Meaning <- MC_Meaning
  Alphabet <- MC_Alphabet
  KeyU <- MC_KeyU
  PatU <- MC_PatU
  ParentU <- MC_ParentU
  Clients_ = {"c1", "c2", "c3"}
  LockKeys_ = {"l/1", "m/1"}
  MaxVer = 1
  MaxAcq = 2
  MaxSubs = 0
  NeedConnect = TRUE
CONSTRAINT Bound
INVARIANTS C01Inv C06State C07State CleanTrees NeverDown EdgeInv
CHECK_DEADLOCK FALSE
