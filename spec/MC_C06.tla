------------------------------- MODULE MC_C06 -------------------------------
(* C06: a key lock has one holder, is handed over first-come and dies with its session *)
EXTENDS MCBase

CONSTANTS Clients_, LockKeys_
KeyOf(n) == CASE n = "l/1" -> <<"l", "1">> [] n = "m/1" -> <<"m", "1">> [] n = "l/2" -> <<"l", "2">> [] n = "l" -> <<"l">>

MC_Alphabet ==
       {[op |-> "connect", c |-> c, proto |-> "TCP", addr |-> "j:null"] : c \in Clients_}
  \cup {[op |-> "disconnect", c |-> c] : c \in Clients_}
  \cup {[op |-> "lock", key |-> KeyOf(k), c |-> c] : k \in LockKeys_, c \in Clients_}
  \cup {[op |-> "acquire", key |-> KeyOf(k), c |-> c] : k \in LockKeys_, c \in Clients_}
  \cup {[op |-> "release", key |-> KeyOf(k), c |-> c] : k \in LockKeys_, c \in Clients_}

MC_KeyU == {}
MC_PatU == {<<"#">>}
MC_ParentU == {<<>>}
MC_Meaning == <<>>
=============================================================================
