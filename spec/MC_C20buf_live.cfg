SPECIFICATION BFairSpec
CONSTANTS
  D = 2
  BKeys = {"a"}
  BVals = {"x", "y"}
  MaxHand = 3
  MaxTime = 8
  BDev = {}
INVARIANT C20Buffer
PROPERTY EventuallyQuiet
CHECK_DEADLOCK FALSE
