SPECIFICATION MCSpec
CONSTANTS
  Me = "n1"
  Peers_ = {"n2", "n3"}
  Foreign_ = {"x9"}
  Quorum = 1
  MyPrio = 100
  QuorumTooLow = TRUE
  EDev = {}
  MaxSend = 3
  Prios_ = {50, 200}
CONSTRAINT MCBound
INVARIANTS CountInv OneProcess
PROPERTY MCAction
CHECK_DEADLOCK FALSE
