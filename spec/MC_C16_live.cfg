SPECIFICATION FairSpec
CONSTANTS
  D = 2
  Keys_ = {"k1", "k2"}
  MaxEv = 3
  MaxTime = 12
PROPERTY EventuallySent
CHECK_DEADLOCK FALSE
