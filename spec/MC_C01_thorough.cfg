SPECIFICATION Spec
CONSTANTS
  Dev = {}
  Meaning <- MC_Meaning
  Alphabet <- MC_Alphabet
  KeyU <- MC_KeyU
  PatU <- MC_PatU
  ParentU <- MC_ParentU
  MaxVer = 2
  MaxAcq = 0
  MaxSubs = 0
  NeedConnect = FALSE
CONSTRAINT Bound
INVARIANTS C01Inv C05Inv CleanTrees NeverDown EdgeInv
CHECK_DEADLOCK FALSE
