------------------------------- MODULE MC_C08 -------------------------------
(* C08: clients cannot alter or fake the server's $SYS information *)
EXTENDS MCBase

s == <<SYS, "s">>
ggk(c) == <<SYS, CLIENTS, c, GG>>
lwk(c) == <<SYS, CLIENTS, c, LW>>
CONSTANTS Targets_, Pats_
KeyOf(n) == CASE n = "s" -> s [] n = "gg2" -> ggk("c2") [] n = "own" -> <<SYS, CLIENTS, "c1", CNAME>>
              [] n = "proto" -> <<SYS, CLIENTS, "c1", "protocol">> [] n = "empty" -> <<"">> [] n = "u" -> <<"u">>
PatOf(n) == CASE n = "?/s" -> <<"?", "s">> [] n = "#" -> <<"#">> [] n = "$SYS/#" -> <<SYS, "#">>
              [] n = "?/#" -> <<"?", "#">> [] n = "$SYS/?" -> <<SYS, "?">> [] n = "u" -> <<"u">>

MC_Meaning ==
  [tok \in {"ggs", "lws"} |->
     CASE tok = "ggs" -> [gg |-> << <<"?", "s">>, <<"#">> >>, lw |-> <<>>]
       [] tok = "lws" -> [gg |-> <<>>, lw |-> << [k |-> s, v |-> "evil"], [k |-> <<"u">>, v |-> "w"] >>]]

MC_Alphabet ==
       {[op |-> "connect", c |-> c, proto |-> "TCP", addr |-> "j:null"] : c \in {"c1"}}
  \cup {[op |-> "disconnect", c |-> "c1"]}
  \cup {[op |-> "set", key |-> s, val |-> "s1", c |-> INT]}
  \cup {[op |-> "psub", c |-> INT, tid |-> 1, pat |-> <<SYS, "#">>, unique |-> FALSE, live |-> TRUE]}
  \cup {[op |-> "set", key |-> KeyOf(k), val |-> "evil", c |-> "c1"] : k \in Targets_}
  \cup {[op |-> "cset", key |-> KeyOf(k), val |-> "evil", ver |-> 0, c |-> "c1"] : k \in Targets_}
  \cup {[op |-> "delete", key |-> KeyOf(k), c |-> "c1"] : k \in Targets_}
  \cup {[op |-> "pdelete", pat |-> PatOf(p), c |-> "c1"] : p \in Pats_}
  \cup {[op |-> "publish", key |-> KeyOf(k), val |-> "evil"] : k \in Targets_ \ {"empty"}}
  \cup {[op |-> "spubinit", tid |-> 7, key |-> KeyOf(k), c |-> "c1"] : k \in Targets_}
  \cup {[op |-> "spub", tid |-> 7, val |-> "evil", c |-> "c1"]}
  \cup {[op |-> "set", key |-> ggk("c1"), val |-> "ggs", c |-> "c1"],
        [op |-> "set", key |-> lwk("c1"), val |-> "lws", c |-> "c1"]}

MC_KeyU == {s, <<"u">>, ggk("c1"), <<SYS, CLIENTS>>}
MC_PatU == {<<"#">>}
MC_ParentU == {<<>>, <<SYS>>}
=============================================================================
