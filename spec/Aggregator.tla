----------------------------- MODULE Aggregator -----------------------------
(***************************************************************************)
(* PStateAggregator (worterbuch.rs:76-248): batching of the events of an   *)
(* aggregated pattern subscription.  Implementation-shaped: the flag       *)
(* send_is_scheduled, the two ordered buffers, the outstanding sleep tasks *)
(* (one per schedule_send), the one-slot tick channel, the loop's select!  *)
(* between "next event" and "tick" (nondeterministic when both are ready). *)
(* Time is discrete; processing takes no time (maximal progress: time does *)
(* not advance while the loop task has something it can do), which is the  *)
(* meaning of "once the client connection can take it" in C16.             *)
(***************************************************************************)
EXTENDS Integers, Sequences, FiniteSets, TLC

CONSTANTS D,        \* the aggregation interval (time units)
          Keys_, MaxEv, MaxTime

VARIABLES
  now,
  inq,      \* events handed to the aggregator, not yet consumed by the loop: Seq([kind, k, v, at])
  setBuf,   \* set_buffer  : Seq([kind, k, v, at]) in insertion order (LinkedHashMap)
  delBuf,   \* deleted_buffer
  flag,     \* send_is_scheduled
  timers,   \* due times of the outstanding sleep tasks (a bag as a sequence)
  tick,     \* 1 = a tick waits in the trigger channel (capacity 1)
  outq,     \* batches sent to the client: Seq([kind, evs, at])
  hist      \* everything that ever arrived, in order

vars == <<now, inq, setBuf, delBuf, flag, timers, tick, outq, hist>>

Init ==
  /\ now = 0 /\ inq = <<>> /\ setBuf = <<>> /\ delBuf = <<>> /\ flag = FALSE
  /\ timers = <<>> /\ tick = 0 /\ outq = <<>> /\ hist = <<>>

KeysOf(buf) == {buf[i].k : i \in DOMAIN buf}

\* send_current_state: the set buffer first, then the deleted buffer
Flushed(sb, db, q) ==
  LET q1 == IF sb # <<>> THEN Append(q, [kind |-> "set", evs |-> sb, at |-> now]) ELSE q
  IN IF db # <<>> THEN Append(q1, [kind |-> "del", evs |-> db, at |-> now]) ELSE q1

Arrive(kind, k, v) ==
  /\ Len(hist) < MaxEv
  /\ LET e == [kind |-> kind, k |-> k, v |-> v, at |-> now] IN
     /\ inq' = Append(inq, e) /\ hist' = Append(hist, e)
  /\ UNCHANGED <<now, setBuf, delBuf, flag, timers, tick, outq>>

\* aggregate(event) - one turn of the loop through the `event` branch
Consume ==
  /\ inq # <<>>
  /\ LET e  == Head(inq)
         t1 == IF flag THEN timers ELSE Append(timers, now + D)      \* schedule_send
         other == IF e.kind = "set" THEN delBuf ELSE setBuf
         mustFlush == other # <<>> \/ e.k \in KeysOf(setBuf) \cup KeysOf(delBuf)
         sb == IF mustFlush THEN <<>> ELSE setBuf
         db == IF mustFlush THEN <<>> ELSE delBuf
     IN /\ timers' = t1
        /\ flag' = IF mustFlush THEN FALSE ELSE TRUE
        /\ outq' = IF mustFlush THEN Flushed(setBuf, delBuf, outq) ELSE outq
        /\ setBuf' = IF e.kind = "set" THEN Append(sb, e) ELSE sb
        /\ delBuf' = IF e.kind = "del" THEN Append(db, e) ELSE db
        /\ inq' = Tail(inq)
  /\ UNCHANGED <<now, tick, hist>>

\* a sleep task wakes up and puts its tick into the one-slot channel (it blocks while the slot is taken)
TimerFires ==
  /\ tick = 0
  /\ \E i \in DOMAIN timers :
       /\ timers[i] <= now
       /\ timers' = [j \in 1..(Len(timers) - 1) |-> IF j < i THEN timers[j] ELSE timers[j + 1]]
  /\ tick' = 1
  /\ UNCHANGED <<now, inq, setBuf, delBuf, flag, outq, hist>>

\* the loop takes the tick: send_current_state
Tick ==
  /\ tick = 1
  /\ tick' = 0 /\ flag' = FALSE
  /\ outq' = Flushed(setBuf, delBuf, outq)
  /\ setBuf' = <<>> /\ delBuf' = <<>>
  /\ UNCHANGED <<now, inq, timers, hist>>

Busy == inq # <<>> \/ tick = 1 \/ \E i \in DOMAIN timers : timers[i] <= now

Advance ==
  /\ ~Busy /\ now < MaxTime
  /\ now' = now + 1
  /\ UNCHANGED <<inq, setBuf, delBuf, flag, timers, tick, outq, hist>>

Next ==
  \* (events arrive early enough for the bounded clock to see them leave)
  \/ \E kind \in {"set", "del"}, k \in Keys_ : now + D < MaxTime /\ Arrive(kind, k, Len(hist) + 1)
  \/ Consume \/ TimerFires \/ Tick \/ Advance

Spec == Init /\ [][Next]_vars
FairSpec == Spec /\ WF_vars(Consume) /\ WF_vars(TimerFires) /\ WF_vars(Tick) /\ WF_vars(Advance)

(***************************************************************************)
(* C16                                                                     *)
(***************************************************************************)
RECURSIVE FlatQ(_)
FlatQ(q) == IF q = <<>> THEN <<>> ELSE Head(q).evs \o FlatQ(Tail(q))

\* nothing lost, duplicated or reordered: what was sent, what is buffered and what is still
\* queued is, concatenated, exactly what arrived; a batch holds one kind and no key twice
ContentInv ==
  /\ FlatQ(outq) \o setBuf \o delBuf \o inq = hist
  /\ setBuf = <<>> \/ delBuf = <<>>
  /\ \A i \in DOMAIN outq :
       /\ \A j \in DOMAIN outq[i].evs : outq[i].evs[j].kind = outq[i].kind
       /\ \A j, l \in DOMAIN outq[i].evs : outq[i].evs[j].k = outq[i].evs[l].k => j = l

\* no event waits longer than the interval
DelayInv ==
  /\ \A i \in DOMAIN setBuf : now - setBuf[i].at <= D
  /\ \A i \in DOMAIN delBuf : now - delBuf[i].at <= D
  /\ \A i \in DOMAIN outq : \A j \in DOMAIN outq[i].evs : outq[i].at - outq[i].evs[j].at <= D

\* a non-empty buffer always has a flush on its way, due no later than its oldest event + D
TimerInv ==
  (setBuf \o delBuf # <<>>) =>
     \/ tick = 1
     \/ \E i \in DOMAIN timers : timers[i] <= (setBuf \o delBuf)[1].at + D

\* liveness (FairSpec, no constraint): every event that arrived is eventually sent
EventuallySent == [](\A n \in 1..MaxEv : (Len(hist) >= n) => <>(Len(FlatQ(outq)) >= n))
=============================================================================
