--------------------------- MODULE Trace_Aggregator ---------------------------
(***************************************************************************)
(* Trace validation of the real PStateAggregator (driven on tokio's paused *)
(* clock by `wbverif agg-run`) against Aggregator.tla.  Logged: every      *)
(* event handed to the aggregator and every batch it sent to the client,   *)
(* each with the virtual time in ms.  Not logged (internal steps the spec  *)
(* takes on its own): the loop consuming an event, a sleep task firing,    *)
(* the loop taking a tick - including the choice select! makes when an     *)
(* event and a tick are ready together.  A batch must appear at exactly    *)
(* the virtual time at which the specification sends it.                   *)
(***************************************************************************)
EXTENDS Aggregator, Json, IOUtils, TLCExt

Rec == ndJsonDeserialize(IOEnv.TRACE)
VARIABLES l, sent
tvars == <<vars, l, sent>>

TraceInit == Init /\ l = 2 /\ sent = 0

EvsMatch(jkvs, evs) ==
  /\ Len(jkvs) = Len(evs)
  /\ \A i \in DOMAIN evs : jkvs[i][1] = evs[i].k /\ jkvs[i][2] = evs[i].v

Logged ==
  /\ l <= Len(Rec)
  /\ LET j == Rec[l] IN
     \/ /\ j.op = "reset"
        /\ now' = 0 /\ inq' = <<>> /\ setBuf' = <<>> /\ delBuf' = <<>> /\ flag' = FALSE
        /\ timers' = <<>> /\ tick' = 0 /\ outq' = <<>> /\ hist' = <<>>
        /\ sent' = 0 /\ l' = l + 1
     \/ /\ j.op = "ev" /\ j.at = now
        /\ LET e == [kind |-> j.kind, k |-> j.k, v |-> j.v, at |-> now] IN
           inq' = Append(inq, e) /\ hist' = Append(hist, e)
        /\ UNCHANGED <<now, setBuf, delBuf, flag, timers, tick, outq, sent>>
        /\ l' = l + 1
     \/ /\ j.op = "batch" /\ j.at = now
        /\ sent < Len(outq)
        /\ outq[sent + 1].kind = j.kind /\ outq[sent + 1].at = now
        /\ EvsMatch(j.kvs, outq[sent + 1].evs)
        /\ sent' = sent + 1 /\ l' = l + 1
        /\ UNCHANGED vars
     \/ /\ j.op = "end" /\ j.at = now /\ ~Busy /\ sent = Len(outq)
        /\ l' = l + 1
        /\ UNCHANGED <<vars, sent>>

Internal ==
  /\ Consume \/ TimerFires \/ Tick
  /\ UNCHANGED <<l, sent>>

\* virtual time passes only when the loop has nothing to do and everything sent has been seen
TimeStep ==
  /\ l <= Len(Rec) /\ Rec[l].op # "reset" /\ Rec[l].at > now
  /\ ~Busy /\ sent = Len(outq)
  /\ now' = now + 1
  /\ UNCHANGED <<inq, setBuf, delBuf, flag, timers, tick, outq, hist, l, sent>>

TraceNext == Logged \/ Internal \/ TimeStep
TraceSpec == TraceInit /\ [][TraceNext]_tvars

NotAccepted == l <= Len(Rec)
=============================================================================
