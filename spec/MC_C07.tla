------------------------------- MODULE MC_C07 -------------------------------
(* C07: session end buries grave goods, publishes the last will, cleans up, nothing else *)
EXTENDS MCBase

a == <<"a">>  ab == <<"a", "b">>  b == <<"b">>
CONSTANTS GGs_, LWs_, Extra_
ggk(c) == <<SYS, CLIENTS, c, GG>>
lwk(c) == <<SYS, CLIENTS, c, LW>>

MC_Meaning ==
  [tok \in {"gg1", "gg2", "gg3", "lw1", "lw2"} |->
     CASE tok = "gg1" -> [gg |-> << <<"a", "#">> >>, lw |-> <<>>]
       [] tok = "gg2" -> [gg |-> << <<"?", CLIENTS>>, <<"a", "#", "b">> >>, lw |-> <<>>]
       [] tok = "gg3" -> [gg |-> << <<SYS, CLIENTS, "c2", "#">>, b >>, lw |-> <<>>]
       [] tok = "lw1" -> [gg |-> <<>>, lw |-> << [k |-> b, v |-> "w1"] >>]
       [] tok = "lw2" -> [gg |-> <<>>, lw |-> << [k |-> ab, v |-> "w2"], [k |-> <<SYS, "x">>, v |-> "w3"] >>]]

MC_Alphabet ==
       {[op |-> "connect", c |-> c, proto |-> "TCP", addr |-> "j:null"] : c \in {"c1", "c2"}}
  \cup {[op |-> "disconnect", c |-> c] : c \in {"c1", "c2"}}
  \cup {[op |-> "set", key |-> ggk("c1"), val |-> g, c |-> "c1"] : g \in GGs_}
  \cup {[op |-> "set", key |-> lwk("c1"), val |-> w, c |-> "c1"] : w \in LWs_}
  \cup {[op |-> "set", key |-> k, val |-> "v1", c |-> "c2"] : k \in {a, ab, b}}
  \cup {[op |-> "cset", key |-> ab, val |-> "v2", ver |-> 0, c |-> "c2"]}
  \cup {[op |-> "psub", c |-> "c2", tid |-> 1, pat |-> <<"#">>, unique |-> FALSE, live |-> TRUE]}
  \cup (IF "sub" \in Extra_ THEN {[op |-> "sub", c |-> "c1", tid |-> 1, key |-> a, unique |-> FALSE, live |-> TRUE]} ELSE {})
  \cup (IF "lock" \in Extra_ THEN {[op |-> "lock", key |-> a, c |-> "c1"], [op |-> "acquire", key |-> a, c |-> "c2"]} ELSE {})
  \cup (IF "spub" \in Extra_ THEN {[op |-> "spubinit", tid |-> 5, key |-> b, c |-> "c1"], [op |-> "spub", tid |-> 5, val |-> "v1", c |-> "c1"]} ELSE {})

MC_KeyU == {a, ab, b, <<SYS, "x">>, ggk("c1"), lwk("c1"), <<SYS, CLIENTS>>}
MC_PatU == {<<"#">>, <<SYS, CLIENTS, "?", GG>>}
MC_ParentU == {<<>>, a, <<SYS, CLIENTS>>}
=============================================================================
