SPECIFICATION Spec
CONSTANTS
  Dev = {}
  MaxGen = 6
  MaxCrashes = 3
CONSTRAINT Bound
INVARIANTS C10Inv TypeOK MemOK
CHECK_DEADLOCK FALSE
