------------------------------- MODULE MC_C08x -------------------------------
(* C08, extended monitoring on: the $SYS information about subscriptions, locks and connections *)
(* that the server maintains itself, through every interleaving of the requests that move it    *)
EXTENDS MCBase

a == <<"a">>
MC_ExtMon == TRUE
MC_Meaning == [tok \in {} |-> [gg |-> <<>>, lw |-> <<>>]]

MC_Alphabet ==
       {[op |-> "connect", c |-> c, proto |-> "TCP", addr |-> "j:null"] : c \in {"c1", "c2"}}
  \cup {[op |-> "disconnect", c |-> c] : c \in {"c1", "c2"}}
  \cup {[op |-> "sub", c |-> "c1", tid |-> 1, key |-> a, unique |-> FALSE, live |-> TRUE]}
  \cup {[op |-> "psub", c |-> "c2", tid |-> 1, pat |-> <<"a", "?">>, unique |-> FALSE, live |-> TRUE]}
  \cup {[op |-> "sub", c |-> "c2", tid |-> 2, key |-> a, unique |-> FALSE, live |-> TRUE]}
  \cup {[op |-> "unsub", c |-> "c1", tid |-> 1], [op |-> "unsub", c |-> "c2", tid |-> 1], [op |-> "unsub", c |-> "c2", tid |-> 2]}
  \cup {[op |-> "lock", key |-> a, c |-> "c1"]}
  \cup {[op |-> "acquire", key |-> a, c |-> c] : c \in {"c1", "c2"}}
  \cup {[op |-> "release", key |-> a, c |-> c] : c \in {"c1", "c2"}}

MC_KeyU == {a, <<SYS, SUBS>>, <<SYS, LOCKS, "a">>, <<SYS, CLIENTS, "c1", SUBS>>, <<SYS, CLIENTS, "c2", SUBS, "a", "%3F">>}
MC_PatU == {<<SYS, "#">>}
MC_ParentU == {<<>>, <<SYS>>, <<SYS, CLIENTS, "c2">>}
=============================================================================
