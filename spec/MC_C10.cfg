SPECIFICATION Spec
CONSTANTS
  Dev = {}
  MaxGen = 4
  MaxCrashes = 2
CONSTRAINT Bound
INVARIANTS C10Inv TypeOK MemOK
CHECK_DEADLOCK FALSE
