SPECIFICATION Spec
CONSTANTS
  Dev = {}
  MaxGen = 4
  MaxCrashes = 2
CONSTRAINT Bound
INVARIANTS C10Inv TypeOK
CHECK_DEADLOCK FALSE
