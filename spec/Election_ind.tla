---------------------------- MODULE Election_ind ----------------------------
(***************************************************************************)
(* C19 without a bound on the datagram history: Apalache checks that       *)
(* IndInv is inductive for Election's next-state relation (any inbox       *)
(* content up to the generator's size, any phase, any counter values that  *)
(* satisfy IndInv) and that IndInv makes every step satisfy LeaderStep and *)
(* FollowerStep.  Cluster: 7 nodes; every quorum 1..7; both values of      *)
(* QuorumTooLow (ConstInit).                                               *)
(*   base  : apalache-mc check --cinit=ConstInit --init=EInit   --next=IndNext --inv=IndInv  --length=0 *)
(*   step  : apalache-mc check --cinit=ConstInit --init=IndInit --next=IndNext --inv=IndInv  --length=1 *)
(*   C19   : apalache-mc check --cinit=ConstInit --init=IndInit --next=IndNext --inv=StepInv --length=1 *)
(* net and proc are write-only (appended to, never read by a guard or by   *)
(* the update of another variable), so IndInit fixes them to empty.        *)
(***************************************************************************)
EXTENDS Election, Apalache

ConstInit ==
  /\ Me = "n1" /\ Peers_ = {"n2", "n3", "n4", "n5", "n6", "n7"} /\ Foreign_ = {"x8", "x9"}
  /\ Quorum \in 1..7 /\ MyPrio = 100 /\ QuorumTooLow \in BOOLEAN /\ EDev = {}

MsgU == {VoteReq(id, p) : id \in Ids, p \in {50, 100, 200}} \cup {VoteResp(id) : id \in Ids}
        \cup {HbReq(id) : id \in Ids} \cup {HbResp(id) : id \in Ids}

IndInv ==
  /\ phase \in {"wait", "votes", "hb", "leader", "follower"}
  /\ \A i \in DOMAIN inbox : inbox[i] \in MsgU
  /\ votes \in 0..8 /\ mayVote \subseteq Peers_ /\ hbFrom \in {"wait", "votes"} /\ leader \in Ids
  /\ roundVoters \subseteq Peers_ /\ announced \subseteq Ids
  /\ CountInv
  /\ phase = "follower" => (leader \in Peers_ /\ leader \in announced)

IndInit ==
  /\ inbox = Gen(3)
  /\ phase \in {"wait", "votes", "hb", "leader", "follower"}
  /\ votes \in 0..8 /\ mayVote \in SUBSET Peers_ /\ hbFrom \in {"wait", "votes"} /\ leader \in Ids
  /\ roundVoters \in SUBSET Peers_ /\ announced \in SUBSET Ids
  /\ net = [p \in Peers_ |-> <<>>] /\ proc = <<>> /\ eused = {}
  /\ IndInv

IndNext ==
  \/ \E m \in MsgU : EnvSend(m)
  \/ Recv \/ Timeout \/ LeaderBeat \/ (\E p \in Peers_ : TakeNet(p)) \/ TakeProc

StepInv == LeaderStep /\ FollowerStep
\* non-vacuity probes (expected to be violated): a step into the leader phase exists from IndInit
NeverLeaderStep == ~(phase' = "leader" /\ phase # "leader")
NeverFollowerStep == ~(phase' = "follower" /\ phase # "follower")
=============================================================================
