---------------------------- MODULE Election_ind ----------------------------
(***************************************************************************)
(* C19 without a bound on the datagram history: Apalache checks that       *)
(* IndInv is inductive for Election's next-state relation (any inbox       *)
(* content up to the generator's size, any phase, any counter values that  *)
(* satisfy IndInv) and that IndInv makes every step satisfy LeaderStep and *)
(* FollowerStep.  Cluster: up to 7 nodes (any subset of six peers          *)
(* configured at any time, the file rewritten at any time when no quorum   *)
(* is configured); every quorum 0 (default: majority) .. 7; both values of *)
(* QuorumTooLow (ConstInit).                                               *)
(*   base  : apalache-mc check --cinit=ConstInit --init=EInit   --next=IndNext --inv=IndInv  --length=0 *)
(*   step  : apalache-mc check --cinit=ConstInit --init=IndInit --next=IndNext --inv=IndInv  --length=1 *)
(*   C19   : apalache-mc check --cinit=ConstInit --init=IndInit --next=IndNext --inv=StepInv --length=1 *)
(* net and proc are write-only (appended to, never read by a guard or by   *)
(* the update of another variable), so IndInit fixes them to empty.        *)
(***************************************************************************)
EXTENDS Election, Apalache

ConstInit ==
  /\ Me = "n1" /\ Peers_ = {"n2", "n3", "n4", "n5", "n6"} /\ Later_ = {"n7"} /\ Foreign_ = {"x8", "x9"}
  /\ Quorum \in 0..7 /\ MyPrio = 100 /\ QuorumTooLow \in BOOLEAN /\ EDev = {}

MsgU == {VoteReq(id, p) : id \in Ids, p \in {50, 100, 200}} \cup {VoteResp(id) : id \in Ids}
        \cup {HbReq(id) : id \in Ids} \cup {HbResp(id) : id \in Ids}

IndInv ==
  /\ phase \in {"wait", "votes", "hb", "leader", "follower"}
  /\ \A i \in DOMAIN inbox : inbox[i] \in MsgU
  /\ votes \in 0..8 /\ mayVote \subseteq AllPeers /\ hbFrom \in {"wait", "votes"} /\ leader \in Ids
  /\ roundVoters \subseteq AllPeers /\ announced \subseteq Ids
  /\ cpeers \subseteq AllPeers /\ file \subseteq AllPeers /\ seen \subseteq AllPeers
  /\ Len(pend) <= 1 /\ \A i \in DOMAIN pend : pend[i] \subseteq AllPeers
  /\ CountInv
  /\ phase = "votes" => roundVoters \subseteq cpeers     \* (the configuration does not change inside a round: Reload leaves it)
  /\ phase = "follower" => (leader \in cpeers /\ leader \in announced)

IndInit ==
  /\ inbox = Gen(3)
  /\ phase \in {"wait", "votes", "hb", "leader", "follower"}
  /\ votes \in 0..8 /\ mayVote \in SUBSET AllPeers /\ hbFrom \in {"wait", "votes"} /\ leader \in Ids
  /\ roundVoters \in SUBSET AllPeers /\ announced \in SUBSET Ids
  /\ cpeers \in SUBSET AllPeers /\ file \in SUBSET AllPeers /\ seen \in SUBSET AllPeers
  /\ \E P \in SUBSET AllPeers : pend \in {<<>>, <<P>>}
  /\ net = [p \in AllPeers |-> <<>>] /\ proc = <<>> /\ eused = {}
  /\ IndInv

IndNext ==
  \/ \E m \in MsgU : EnvSend(m)
  \/ \E P \in SUBSET AllPeers : EnvRewrite(P)
  \/ Recv \/ Timeout \/ LeaderBeat \/ Scan \/ Reload \/ (\E p \in AllPeers : TakeNet(p)) \/ TakeProc

StepInv == LeaderStep /\ FollowerStep
\* non-vacuity probes (expected to be violated): a step into the leader phase exists from IndInit
NeverLeaderStep == ~(phase' = "leader" /\ phase # "leader")
NeverFollowerStep == ~(phase' = "follower" /\ phase # "follower")
=============================================================================
