------------------------------ MODULE Trace_Redb ------------------------------
(***************************************************************************)
(* Trace validation for C18: a real server with the ReDB backend applied a *)
(* history (replayed here on the core model), was stopped - abruptly or    *)
(* cleanly - and a second server on the same file was read back.  The      *)
(* recovered content must be the content after some prefix of the          *)
(* single-key changes the server had applied (all of them after a clean    *)
(* stop), registrations of that point applied.  The changes of ONE request *)
(* reach the writer in an unspecified order (HashMap iteration in pdelete, *)
(* import, session end), so inside the request at the cut any subset may   *)
(* have been written.                                                      *)
(***************************************************************************)
EXTENDS CoreSpec, Json, IOUtils, TLCExt

Rec == ndJsonDeserialize(IOEnv.TRACE)
Hdr == Rec[1]
TraceMeaning == [tok \in DOMAIN Hdr.meaning |-> [gg |-> Hdr.meaning[tok].gg, lw |-> Hdr.meaning[tok].lw]]

VARIABLES l, groups, stopped, used
tvars == <<vars, l, groups, stopped, used>>

ToSetOfSeq(q) == {q[i] : i \in DOMAIN q}
ReqOf(j) == IF j.op = "import" THEN [op |-> "import", tree |-> {[p |-> n.p, e |-> [k |-> n.e.k, v |-> n.e.v, n |-> n.e.n]] : n \in ToSetOfSeq(j.tree)}]
            ELSE j
RepOf(j) ==
  CASE j.t = "ok"   -> Ok
    [] j.t = "err"  -> Err(j.code)
    [] j.t = "val"  -> RVal(j.v)
    [] j.t = "kvs"  -> RKvs({<<j.kvs[i][1], j.kvs[i][2]>> : i \in DOMAIN j.kvs})
    [] OTHER        -> [t |-> "unknown"]

\* the persistence actions one request hands to the writer (user keys and registrations)
UserKeys(X) == {q \in DOMAIN X.store : X.store[q].k # "none" /\ q[1] # SYS}
RegKeysOf(X) == {q \in DOMAIN X.store : Len(q) = 4 /\ q[1] = SYS /\ q[2] = CLIENTS /\ q[4] \in {GG, LW} /\ X.store[q].k # "none"}
\* A registration leaves the table when its client's session ends (remove_grave_goods_and_last_will).
\* When the KEY is deleted (delete / pdelete by its owner), delete_value returns early for everything
\* under $SYS (persistence/mod.rs:160-163): the registration stays in the table  [D_REG_DELETE]
Withdrawn(X, Y, r) ==
  {q \in RegKeysOf(X) \ RegKeysOf(Y) : (r.op = "disconnect" /\ q[3] = r.c) \/ ~Flag("D_REG_DELETE")}
ActsOf(X, Y, r) ==
       {[op |-> "upd", k |-> q, e |-> Y.store[q]] : q \in {x \in UserKeys(Y) : x \notin UserKeys(X) \/ X.store[x] # Y.store[x]}}
  \cup {[op |-> "del", k |-> q] : q \in UserKeys(X) \ UserKeys(Y)}
  \cup {[op |-> "reg", k |-> q, v |-> Y.store[q].v] : q \in {x \in RegKeysOf(Y) : x \notin RegKeysOf(X) \/ X.store[x].v # Y.store[x].v}}
  \cup {[op |-> "unreg", k |-> q] : q \in Withdrawn(X, Y, r)}
  \* the end of a session removes whatever the table holds for its client (also a registration whose key
  \* had been deleted from the store before)
  \cup (IF r.op = "disconnect" /\ Y.clients # X.clients THEN {[op |-> "unregclient", c |-> r.c]} ELSE {})

\* table state: [tbl: key -> entry, regs: reg key -> token]
EmptyT == [tbl |-> <<>>, regs |-> <<>>]
ApplyT(t, a) ==
  CASE a.op = "upd"   -> [t EXCEPT !.tbl = (a.k :> a.e) @@ @]
    [] a.op = "del"   -> [t EXCEPT !.tbl = RestrictF(@, DOMAIN @ \ {a.k})]
    [] a.op = "reg"   -> [t EXCEPT !.regs = (a.k :> a.v) @@ @]
    [] a.op = "unreg" -> [t EXCEPT !.regs = RestrictF(@, DOMAIN @ \ {a.k})]
    [] a.op = "unregclient" -> [t EXCEPT !.regs = RestrictF(@, {q \in DOMAIN @ : q[3] # a.c})]
ApplySet(t, as) == FoldS(ApplyT, t, as)          \* actions of one request touch distinct keys: they commute
RECURSIVE ApplyGroups(_, _, _)
ApplyGroups(t, gs, n) == IF n = 0 THEN t ELSE ApplyGroups(ApplySet(t, Head(gs)), Tail(gs), n - 1)

\* the next start: table with forced insert, pending grave goods, pending last wills
LoadedFlat(t) ==
  LET entry(e) == IF e.k = "cas" /\ Flag("D_REDB_VERSION") THEN CasE(e.v, 1) ELSE e
      nodes == UNION {Prefixes(k) : k \in DOMAIN t.tbl} \cup {<<>>}
      st == [q \in nodes |-> IF q \in DOMAIN t.tbl THEN entry(t.tbl[q]) ELSE NoneE]
      X0 == [InitS EXCEPT !.store = st, !.len = CountVals(st)]
      ggs == ConcatSeqs({Meaning[t.regs[q]].gg : q \in {x \in DOMAIN t.regs : x[4] = GG /\ t.regs[x] \in DOMAIN Meaning}})
      lws == ConcatSeqs({Meaning[t.regs[q]].lw : q \in {x \in DOMAIN t.regs : x[4] = LW /\ t.regs[x] \in DOMAIN Meaning}})
      r1 == BurySeq(Res(X0, Ok), ggs, INT)
      r2 == WillSeq(r1, lws, INT)
  IN {<<q, r2.s.store[q].v, r2.s.store[q].n>> : q \in UserKeys(r2.s)}

FlatOfJson(j) == {<<j[i][1], j[i][2], j[i][3]>> : i \in DOMAIN j}

Explains(flat, clean) ==
  IF clean THEN LoadedFlat(ApplyGroups(EmptyT, groups, Len(groups))) = flat
  ELSE \E g \in 0..Len(groups) :
         LET t == ApplyGroups(EmptyT, groups, g) IN
         \E sub \in SUBSET (IF g < Len(groups) THEN groups[g + 1] ELSE {}) :
            LoadedFlat(ApplySet(t, sub)) = flat

TraceInit == Init /\ l = 2 /\ groups = <<>> /\ stopped = "no" /\ used = {}

Consume ==
  /\ l <= Len(Rec)
  /\ l' = l + 1
  /\ \A i \in 1..NFlags : TLCSet(i, FALSE)
  /\ LET j == Rec[l] IN
     CASE j.op = "reset" ->
            /\ S' = InitS /\ R' = InitR /\ out' = [rep |-> Ok, ev |-> EmptyF, ls |-> EmptyF, lk |-> {}]
            /\ exp' = NoExp /\ act' = [op |-> "reset"] /\ groups' = <<>> /\ stopped' = "no"
       [] j.op = "req" ->
            /\ Step(ReqOf(j.r))
            /\ out'.rep = RepOf(j.rep)
            /\ groups' = LET as == ActsOf(S, S', ReqOf(j.r)) IN IF as = {} THEN groups ELSE Append(groups, as)
            /\ UNCHANGED stopped
       [] j.op = "stop" ->
            /\ stopped' = IF j.clean THEN "clean" ELSE "abrupt"
            /\ UNCHANGED <<vars, groups>>
       [] j.op = "recovered" ->
            /\ Explains(FlatOfJson(j.flat), stopped = "clean")
            /\ UNCHANGED <<vars, groups, stopped>>
  /\ used' = used \cup {FlagNames[i] : i \in {k \in 1..NFlags : TLCGet(k)}}
  /\ (l = Len(Rec)) => PrintT("DEV-USED " \o ToString(used'))

TraceSpec == TraceInit /\ [][Consume]_tvars

TraceAccepted ==
  LET d == TLCGet("stats").diameter IN
  IF d - 1 = Len(Rec) - 1 THEN TRUE
  ELSE Print(<<"TRACE-REJECTED at record", d + 1, ToJson(Rec[d + 1])>>, FALSE)
=============================================================================
