-------------------------------- MODULE Core --------------------------------
(***************************************************************************)
(* The single-server core of worterbuch (worterbuch/src/worterbuch.rs,     *)
(* store.rs, subscribers.rs): tree store with plain and CAS entries,       *)
(* subscribers, ls-subscribers, key locks, client sessions with their      *)
(* $SYS entries, grave goods and last wills, publish streams.              *)
(*                                                                         *)
(* IMPLEMENTATION-SHAPED LAYER.  One operator per method of the code; the  *)
(* state is the record S (one field per field of `Worterbuch`/`Store`).    *)
(* Every operator returns a result record                                  *)
(*    [s, rep, ev, ls, lk]  =  new state, reply, subscription events,      *)
(*                              ls notifications, lock signals             *)
(* so that multi-step procedures of the code (connected, disconnected)     *)
(* are compositions of the same operators the single requests use.         *)
(* One request = one atomic action: lib.rs:217-363, a single task owns     *)
(* the core and processes one mpsc message to completion.                  *)
(*                                                                         *)
(* Deviations of the code from the listed properties are named flags in    *)
(* the constant Dev (DESIGN.md 2.2): flag present = behaviour of the       *)
(* pinned code, flag absent = intended behaviour.                          *)
(*                                                                         *)
(* The REFERENCE LAYER (flat map of accepted writes, expected events, last *)
(* delivered listing, lock queues ...) is CoreRef.tla, the actions that    *)
(* tie both layers together are in CoreSpec.tla.                           *)
(***************************************************************************)
EXTENDS Keys, TLC

CONSTANTS
  Dev,        \* set of deviation flags that are switched on
  Meaning     \* token -> [gg |-> Seq(pattern), lw |-> Seq([k |-> key, v |-> token])]
              \* how a stored value token parses as grave goods / last will

\* Is deviation f switched on?  Written at the exact place where the pinned code
\* and the intended behaviour part, and evaluated only when they really differ
\* on the current state, so that the TLC registers record which deviations an
\* execution actually needed (read by the trace specs; harmless elsewhere).
FlagIdx(f) ==
  CASE f = "D_CAS_GHOST" -> 1 [] f = "D_HASH_ZERO" -> 2 [] f = "D_LAZY_HASH" -> 3
    [] f = "D_SYS_WILDCARD" -> 4 [] f = "D_PUBLISH_SYS" -> 5 [] f = "D_IMPORT_NO_LS" -> 6
    [] f = "D_LOCK_GARBAGE" -> 7 [] f = "D_GGLW_PARSE" -> 8 [] f = "D_CAS_SHAPED" -> 9 [] f = "D_NULL_RELOAD" -> 10 [] f = "D_ERR_CLOSES" -> 11 [] f = "D_UNSUB_TRAIL" -> 12
    [] f = "D_DISC_NOT_FORWARDED" -> 13 [] f = "D_SYNC_DROPS_REGS" -> 14 [] f = "D_IMPORT_VERSION" -> 15
    [] f = "D_FLAGS_NO_PERSIST" -> 16 [] f = "D_REDB_VERSION" -> 17
    [] f = "D_UNSUBLS_ASYNC" -> 18 [] f = "D_PUB_BUFFER" -> 19 [] f = "D_CAS_OVERFLOW" -> 20 [] f = "D_REG_DELETE" -> 21 [] f = "D_LOCKMON_WAITER" -> 22 [] OTHER -> 23
NFlags == 23
FlagNames == <<"D_CAS_GHOST", "D_HASH_ZERO", "D_LAZY_HASH", "D_SYS_WILDCARD", "D_PUBLISH_SYS",
               "D_IMPORT_NO_LS", "D_LOCK_GARBAGE", "D_GGLW_PARSE", "D_CAS_SHAPED", "D_NULL_RELOAD",
               "D_ERR_CLOSES", "D_UNSUB_TRAIL", "D_DISC_NOT_FORWARDED", "D_SYNC_DROPS_REGS", "D_IMPORT_VERSION",
               "D_FLAGS_NO_PERSIST", "D_REDB_VERSION", "D_UNSUBLS_ASYNC", "D_PUB_BUFFER", "D_CAS_OVERFLOW", "D_REG_DELETE", "D_LOCKMON_WAITER", "D_OTHER">>
Flag(f) == f \in Dev /\ TLCSet(FlagIdx(f), TRUE)

INT  == "int"                     \* INTERNAL_CLIENT_ID
SYS  == "$SYS"
CLIENTS == "clients"
GG == "graveGoods"
LW == "lastWill"
CNAME == "clientName"

(***************************************************************************)
(* Entries and replies                                                     *)
(***************************************************************************)
NoneE      == [k |-> "none",  v |-> "", n |-> 0]
PlainE(v)  == [k |-> "plain", v |-> v,  n |-> 0]
CasE(v, n) == [k |-> "cas",   v |-> v,  n |-> n]

\* error codes: worterbuch-common/src/lib.rs:231-259
E_WILD == 0  E_MULTI == 1  E_NOVAL == 5  E_NOTSUB == 6  E_RO == 9  E_NOPUB == 15
E_CAS == 17  E_CASVER == 18  E_LOCKED == 20  E_NOTLOCKED == 21  E_COLLISION == 24
E_EMPTY == 25

Ok          == [t |-> "ok"]
Err(c)      == [t |-> "err", code |-> c]
RVal(v)     == [t |-> "val", v |-> v]
RCVal(v, n) == [t |-> "cval", v |-> v, n |-> n]
RKvs(kvs)   == [t |-> "kvs", kvs |-> kvs]      \* set of <<key, value>>
RList(l)    == [t |-> "list", list |-> l]       \* set of segments
RLen(n)     == [t |-> "len", n |-> n]
Down        == [t |-> "down"]                   \* the core task is gone (panic)

EmptyF == <<>>      \* the function with empty domain

\* result constructor
Res(s, rep) == [s |-> s, rep |-> rep, ev |-> EmptyF, ls |-> EmptyF, lk |-> {}]

\* concatenate the per-subscription batch sequences of two consecutive steps
CatEv(e1, e2) ==
  [id \in DOMAIN e1 \cup DOMAIN e2 |->
     (IF id \in DOMAIN e1 THEN e1[id] ELSE <<>>) \o (IF id \in DOMAIN e2 THEN e2[id] ELSE <<>>)]
\* merge two batches delivered by the same multi-key step (order unspecified)
UnionEv(e1, e2) ==
  [id \in DOMAIN e1 \cup DOMAIN e2 |->
     << (IF id \in DOMAIN e1 THEN e1[id][1] ELSE {}) \cup (IF id \in DOMAIN e2 THEN e2[id][1] ELSE {}) >>]
\* later ls notification wins (only the last list is compared, DESIGN 5.1)
CatLs(l1, l2) == l2 @@ l1

\* r2 was computed from r1.s; accumulate observations, keep r2's reply
Then(r1, r2) == [s |-> r2.s, rep |-> r2.rep, ev |-> CatEv(r1.ev, r2.ev),
                 ls |-> CatLs(r1.ls, r2.ls), lk |-> r1.lk \cup r2.lk]
\* same, but keep the reply of r1 (r2 is an internal follow-up step)
ThenKeep(r1, r2) == [Then(r1, r2) EXCEPT !.rep = r1.rep]

(***************************************************************************)
(* The tree (store.rs:136-273).  st : [set of node paths -> entry];        *)
(* <<>> is the root and always present.                                    *)
(***************************************************************************)
Children(st, p)  == {q \in DOMAIN st : Len(q) = Len(p) + 1 /\ IsPrefixOf(p, q)}
ChildSegs(st, p) == {Last(q) : q \in Children(st, p)}
Desc(st, p)      == {q \in DOMAIN st : IsStrictPrefixOf(p, q)}
HasVal(st, p)    == p \in DOMAIN st /\ st[p].k # "none"
\* Node::is_obsolete
Obsolete(st, q)  == st[q].k = "none" /\ Children(st, q) = {}
RestrictF(f, D)   == [x \in D |-> f[x]]
\* Node::trim - drop the obsolete direct children of p
Trim(st, p) == RestrictF(st, DOMAIN st \ {q \in Children(st, p) : Obsolete(st, q)})
\* Node::is_clean for the whole tree (guarded by is_empty in the callers)
Clean(st) == \A q \in DOMAIN st \ {<<>>} : ~Obsolete(st, q)
CountVals(st) == Cardinality({q \in DOMAIN st : st[q].k # "none"})
\* get_or_create_child along a path
WithPath(st, path) == [q \in DOMAIN st \cup Prefixes(path) |-> IF q \in DOMAIN st THEN st[q] ELSE NoneE]

EmptyStore == (<<>> :> NoneE)

(***************************************************************************)
(* The state record                                                        *)
(***************************************************************************)
InitS == [
  store      |-> EmptyStore,
  len        |-> 0,
  subs       |-> {},       \* Subscribers tree: records [id, pat, kind, unique]
  subIds     |-> EmptyF,   \* Worterbuch.subscriptions : id -> pattern
  lsSubs     |-> {},       \* Store.subscribers: records [id, parent]
  lsIds      |-> EmptyF,   \* Worterbuch.ls_subscriptions : id -> parent
  locks      |-> EmptyF,   \* lock values: path -> [holder, cands]; cands: Seq([c, reqs])
  lockNodes  |-> {<<>>},   \* nodes of the lock tree
  lockedKeys |-> EmptyF,   \* client -> Seq(path)
  csubs      |-> EmptyF,   \* client -> number of subscriptions (ClientInfo.subscriptions); kept only with ExtMon
  clients    |-> {},
  spub       |-> EmptyF,   \* <<client, tid>> -> key
  down       |-> FALSE     \* core task panicked
]

(***************************************************************************)
(* check_for_read_only_key (worterbuch.rs:1487-1520), literally.           *)
(* Returns -1 (allowed) or the error code.                                 *)
(***************************************************************************)
ReadOnlyCheck(path, c) ==
  IF path = <<"">> THEN E_EMPTY
  ELSE IF c = INT THEN -1
  ELSE IF path[1] # SYS THEN -1
  ELSE IF Len(path) <= 3 \/ path[2] # CLIENTS \/ path[3] # c THEN E_RO
  ELSE IF path[4] \in {GG, LW, CNAME} THEN -1
  ELSE E_RO

\* a pattern of an ordinary client that the literal check lets through but
\* that can reach below $SYS (first segment is a wildcard)  [D_SYS_WILDCARD]
ReachesSysByWildcard(path, c) == c # INT /\ path[1] \in {WILD, MULTI}

(***************************************************************************)
(* Subscriber walk (subscribers.rs:190-222): is the subscriber stored      *)
(* under pattern p reached by add_matches for key k ?  A "#" node at any   *)
(* position collects every subscriber stored at or below it.               *)
(***************************************************************************)
RECURSIVE WalkMatch(_, _)
WalkMatch(p, k) ==
  IF k = <<>> THEN p = <<>>
  ELSE IF p = <<>> THEN FALSE
  ELSE IF Head(p) = MULTI THEN TRUE
  ELSE (Head(p) = WILD \/ Head(p) = Head(k)) /\ WalkMatch(Tail(p), Tail(k))

\* notify_subscribers (worterbuch.rs:814-857)
Notify(S, path, val, changed, deleted) ==
  LET hit == {s \in S.subs : WalkMatch(s.pat, path) /\ (changed \/ ~s.unique)}
      e   == [t |-> IF deleted THEN "del" ELSE "val", kvs |-> {<<path, val>>}]
  IN [id \in {s.id : s \in hit} |-> << {e} >>]

\* ls notifications: every ls-subscriber registered at one of the parents in
\* DOMAIN lsn receives the list lsn[parent]
LsNotify(S, lsn) ==
  LET hit == {s \in S.lsSubs : s.parent \in DOMAIN lsn}
  IN [id \in {s.id : s \in hit} |-> lsn[(CHOOSE s \in hit : s.id = id).parent]]

(***************************************************************************)
(* Store::insert (store.rs:745-843)                                        *)
(***************************************************************************)
\* CAS versions are u64.  TLC's integers are 32 bit: the harness maps the top of the u64 range
\* onto the top of this one (u64::MAX <-> VerTop, u64::MAX - 1 <-> VerTop - 1, ...).
VerTop == 2000000000
E_PANIC == -2
Decide(cur, new, force) ==
  IF cur.k = "none" THEN
    IF new.k = "plain" THEN [err |-> -1, existed |-> FALSE, changed |-> TRUE, e |-> new]
    ELSE IF new.n = 0 \/ force THEN [err |-> -1, existed |-> FALSE, changed |-> TRUE, e |-> CasE(new.v, 1)]
    ELSE [err |-> E_CASVER]
  ELSE IF cur.k = "plain" THEN
    IF new.k = "plain" THEN [err |-> -1, existed |-> TRUE, changed |-> cur.v # new.v, e |-> new]
    ELSE IF new.n = 0 \/ force THEN [err |-> -1, existed |-> TRUE, changed |-> cur.v # new.v, e |-> CasE(new.v, 1)]
    ELSE [err |-> E_CASVER]
  ELSE \* cas
    IF new.k = "plain" THEN
      IF force THEN [err |-> -1, existed |-> TRUE, changed |-> cur.v # new.v, e |-> PlainE(new.v)]
      ELSE [err |-> E_CAS]
    ELSE IF force \/ cur.n = new.n
      THEN IF new.n >= VerTop
             \* the largest version cannot be raised: `v + 1` (store.rs:827,833) overflows - a panic of the
             \* core task in a debug build, version 0 in a release build  [D_CAS_OVERFLOW]
             THEN [err |-> IF Flag("D_CAS_OVERFLOW") THEN E_PANIC ELSE E_CASVER]
             ELSE [err |-> -1, existed |-> TRUE, changed |-> cur.v # new.v, e |-> CasE(new.v, new.n + 1)]
      ELSE [err |-> E_CASVER]

\* returns [err, st, len, changed, lsn]
Insert(S, path, new, force) ==
  LET st0     == S.store
      created == {i \in 1..Len(path) : SubSeq(path, 1, i) \notin DOMAIN st0}
      st1     == WithPath(st0, path)            \* store.rs:755-757: nodes first
      d       == Decide(st1[path], new, force)
  IN IF d.err # -1
       THEN [err |-> d.err,
             st  |-> IF created # {} /\ Flag("D_CAS_GHOST") THEN st1 ELSE st0,   \* nodes stay behind
             len |-> S.len, changed |-> FALSE, lsn |-> EmptyF]
       ELSE LET st2 == [st1 EXCEPT ![path] = d.e]
            IN [err |-> -1, st |-> st2,
                len |-> IF d.existed THEN S.len ELSE S.len + 1,
                changed |-> d.changed,
                lsn |-> [p \in {SubSeq(path, 1, i - 1) : i \in created} |-> ChildSegs(st2, p)]]

(***************************************************************************)
(* Store::ndelete (store.rs:414-449)                                       *)
(***************************************************************************)
RECURSIVE NDel(_, _, _)
NDel(st, p, rel) ==
  IF rel = <<>> THEN [st |-> [st EXCEPT ![p] = NoneE], val |-> st[p], lsn |-> EmptyF]
  ELSE LET c == Append(p, Head(rel)) IN
    IF c \in DOMAIN st THEN
      LET r   == NDel(st, c, Tail(rel))
          st2 == Trim(r.st, p)
      IN [st |-> st2, val |-> r.val,
          lsn |-> IF DOMAIN st2 # DOMAIN r.st THEN r.lsn @@ (p :> ChildSegs(st2, p)) ELSE r.lsn]
    ELSE [st |-> st, val |-> NoneE, lsn |-> EmptyF]

(***************************************************************************)
(* Store::ncollect_matches (store.rs:557-658): pget, psubscribe snapshot.  *)
(* Returns [err, kvs] with kvs a set of <<path, entry>>.                   *)
(***************************************************************************)
RECURSIVE NCollect(_, _, _)
NCollect(st, p, rem) ==
  IF rem = <<>> THEN [err |-> FALSE, kvs |-> IF st[p].k # "none" THEN {<<p, st[p]>>} ELSE {}]
  ELSE LET h == Head(rem)  t == Tail(rem) IN
    IF h = MULTI THEN
      IF t # <<>> THEN [err |-> TRUE, kvs |-> {}]
      ELSE [err |-> FALSE,
            kvs |-> (IF st[p].k # "none" /\ Flag("D_HASH_ZERO") THEN {<<p, st[p]>>} ELSE {})
                    \cup {<<q, st[q]>> : q \in {x \in Desc(st, p) : st[x].k # "none"}}]
    ELSE IF h = WILD THEN
      LET rs == {NCollect(st, q, t) : q \in Children(st, p)}
      IN [err |-> \E r \in rs : r.err, kvs |-> UNION {r.kvs : r \in rs}]
    ELSE LET c == Append(p, h) IN
      IF c \in DOMAIN st THEN NCollect(st, c, t) ELSE [err |-> FALSE, kvs |-> {}]

\* Store::ncollect_matching_children (store.rs:660-724): pls
RECURSIVE NCollectChildren(_, _, _)
NCollectChildren(st, p, rem) ==
  IF rem = <<>> THEN [err |-> FALSE, segs |-> ChildSegs(st, p)]
  ELSE LET h == Head(rem)  t == Tail(rem) IN
    IF h = MULTI THEN [err |-> TRUE, segs |-> {}]
    ELSE IF h = WILD THEN
      LET rs == {NCollectChildren(st, q, t) : q \in Children(st, p)}
      IN [err |-> \E r \in rs : r.err, segs |-> UNION {r.segs : r \in rs}]
    ELSE LET c == Append(p, h) IN
      IF c \in DOMAIN st THEN NCollectChildren(st, c, t) ELSE [err |-> FALSE, segs |-> {}]

(***************************************************************************)
(* Store::ndelete_matches / ndelete_child_matches (store.rs:451-555).      *)
(* Returns [err, st, kvs, lsn]; `skip` is the set of first-level segments  *)
(* that a wildcard must not enter (intended behaviour for $SYS).           *)
(***************************************************************************)
\* sequential fold over a set (the order of HashMap iteration is unspecified;
\* the operators folded here commute)
RECURSIVE FoldS(_, _, _)
FoldS(Op(_, _), acc, set) ==
  IF set = {} THEN acc
  ELSE LET x == CHOOSE y \in set : TRUE IN FoldS(Op, Op(acc, x), set \ {x})

RECURSIVE NDelM(_, _, _, _)
NDelChild(acc, p, seg, t, skip) ==
  \* acc = [err, st, kvs, lsn]
  LET c == Append(p, seg) IN
  IF acc.err \/ c \notin DOMAIN acc.st THEN acc
  ELSE LET r   == NDelM(acc.st, c, t, {})
           st2 == Trim(r.st, p)
       IN IF r.err THEN [acc EXCEPT !.err = TRUE]
          ELSE [err |-> FALSE, st |-> st2, kvs |-> acc.kvs \cup r.kvs,
                lsn |-> IF DOMAIN st2 # DOMAIN r.st
                          THEN (p :> ChildSegs(st2, p)) @@ r.lsn @@ acc.lsn
                          ELSE r.lsn @@ acc.lsn]

NDelM(st, p, rem, skip) ==
  IF rem = <<>> THEN
    [err |-> FALSE, st |-> [st EXCEPT ![p] = NoneE],
     kvs |-> IF st[p].k # "none" THEN {<<p, st[p]>>} ELSE {}, lsn |-> EmptyF]
  ELSE LET h == Head(rem)  t == Tail(rem) IN
    IF h = MULTI THEN
      IF t # <<>> THEN [err |-> TRUE, st |-> st, kvs |-> {}, lsn |-> EmptyF]
      ELSE
        LET zero == st[p].k # "none" /\ Flag("D_HASH_ZERO")
            gone == {q \in Desc(st, p) : Len(q) = Len(p) \/ Head(SubSeq(q, Len(p) + 1, Len(q))) \notin skip}
            kvs  == (IF zero THEN {<<p, st[p]>>} ELSE {})
                    \cup {<<q, st[q]>> : q \in {x \in gone : st[x].k # "none"}}
            \* every node of the collected sub-tree that has children tells its
            \* ls-subscribers "[]" (store.rs:593-603)
            lsE  == {q \in ({p} \cup gone) : Children(st, q) \cap gone # {}}
            st1  == RestrictF(st, DOMAIN st \ gone)
            \* Node::drop_children also clears the node's own value
            st2  == IF zero THEN [st1 EXCEPT ![p] = NoneE] ELSE st1
        IN [err |-> FALSE, st |-> st2, kvs |-> kvs, lsn |-> [q \in lsE |-> {}]]
    ELSE
      LET segs == IF h = WILD THEN ChildSegs(st, p) \ skip
                  ELSE IF Append(p, h) \in DOMAIN st THEN {h} ELSE {}
          Step(acc, seg) == NDelChild(acc, p, seg, t, skip)
          r == FoldS(Step, [err |-> FALSE, st |-> st, kvs |-> {}, lsn |-> EmptyF], segs)
      IN IF r.err THEN [err |-> TRUE, st |-> st, kvs |-> {}, lsn |-> EmptyF]
         ELSE [r EXCEPT !.st = Trim(r.st, p)]

(***************************************************************************)
(* Requests (worterbuch.rs).  Each returns a result record.                *)
(***************************************************************************)
WithStore(S, st, len) == [S EXCEPT !.store = st, !.len = len]

\* debug_assert!(self.data.is_empty() || self.data.is_clean()) store.rs:362,410:
\* in a debug build a violated assertion is a panic of the core task
PanicIfDirty(r) ==
  IF Children(r.s.store, <<>>) = {} \/ Clean(r.s.store) THEN r
  ELSE [r EXCEPT !.s.down = TRUE, !.rep = Down, !.ev = EmptyF, !.ls = EmptyF]

DoGet(S, path) ==
  IF HasWildcard(path) THEN Res(S, Err(FirstWildErr(path)))
  ELSE IF HasVal(S.store, path) THEN Res(S, RVal(S.store[path].v))
  ELSE Res(S, Err(E_NOVAL))

DoCGet(S, path) ==
  IF HasWildcard(path) THEN Res(S, Err(FirstWildErr(path)))
  ELSE IF HasVal(S.store, path) THEN Res(S, RCVal(S.store[path].v, S.store[path].n))
  ELSE Res(S, Err(E_NOVAL))

PGetKvs(S, pat) ==
  \* [err, kvs] ; an illegal pattern is rejected up front unless D_LAZY_HASH
  LET r == NCollect(S.store, <<>>, pat) IN
  IF ~Legal(pat) /\ (r.err \/ ~Flag("D_LAZY_HASH")) THEN [err |-> TRUE, kvs |-> {}] ELSE r

DoPGet(S, pat) ==
  LET r == PGetKvs(S, pat) IN
  IF r.err THEN Res(S, Err(E_MULTI))
  ELSE Res(S, RKvs({<<kv[1], kv[2].v>> : kv \in r.kvs}))

\* Worterbuch::ls: the parent is split on '/', no wildcard check
DoLs(S, parent) ==
  IF parent \in DOMAIN S.store THEN Res(S, RList(ChildSegs(S.store, parent)))
  ELSE Res(S, Err(E_NOVAL))

DoPLs(S, pat) ==
  IF pat = <<>> THEN DoLs(S, <<>>)
  ELSE LET r == NCollectChildren(S.store, <<>>, pat) IN
       IF r.err \/ ((\E i \in 1..Len(pat) : pat[i] = MULTI) /\ ~Flag("D_LAZY_HASH"))
         THEN Res(S, Err(E_MULTI)) ELSE Res(S, RList(r.segs))

DoLen(S) == Res(S, RLen(S.len))

\* PersistentStorageImpl::update_value (persistence/mod.rs:84-140) parses the
\* value written to $SYS/clients/<id>/graveGoods|lastWill, whatever the backend
\* (parsed as Option<Vec<..>>: JSON null and the empty array are "no registration")
NoRegistration == {"j:null", "j:[]"}
GGParses(v) == v \in NoRegistration \/ (v \in DOMAIN Meaning /\ Meaning[v].lw = <<>>)
LWParses(v) == v \in NoRegistration \/ (v \in DOMAIN Meaning /\ Meaning[v].gg = <<>>)
RegistrationUnparsable(path, v) ==
  /\ Len(path) = 4 /\ path[1] = SYS /\ path[2] = CLIENTS
  /\ \/ path[4] = GG /\ ~GGParses(v)
     \/ path[4] = LW /\ ~LWParses(v)
E_IO == 3

\* set / cset share everything but the entry (worterbuch.rs:334-411)
DoWrite(S, path, new, c, force) ==
  LET ro == ReadOnlyCheck(path, c) IN
  IF ro # -1 THEN Res(S, Err(ro))
  ELSE IF HasWildcard(path) THEN Res(S, Err(FirstWildErr(path)))
  ELSE IF RegistrationUnparsable(path, new.v) /\ ~Flag("D_GGLW_PARSE") THEN Res(S, Err(E_IO))
  ELSE LET i == Insert(S, path, new, force) IN
    IF i.err = E_PANIC THEN [Res(S, Down) EXCEPT !.s.down = TRUE]
    ELSE IF i.err # -1 THEN Res(WithStore(S, i.st, i.len), Err(i.err))
    ELSE IF RegistrationUnparsable(path, new.v)
      \* as-is: the value is already in the store when the parse error is returned;
      \* nobody is notified
      THEN Res(WithStore(S, i.st, i.len), Err(E_IO))
    ELSE LET S2 == WithStore(S, i.st, i.len) IN
         [s |-> S2, rep |-> Ok, ev |-> Notify(S2, path, new.v, i.changed, FALSE),
          ls |-> LsNotify(S2, i.lsn), lk |-> {}]

DoSet(S, path, v, c, force)     == DoWrite(S, path, PlainE(v), c, force)
DoCSet(S, path, v, n, c, force) == DoWrite(S, path, CasE(v, n), c, force)

DoDelete(S, path, c) ==
  LET ro == ReadOnlyCheck(path, c) IN
  IF ro # -1 THEN Res(S, Err(ro))
  ELSE IF HasWildcard(path) THEN Res(S, Err(FirstWildErr(path)))
  ELSE LET d == NDel(S.store, <<>>, path) IN
    IF d.val.k = "none"
      THEN PanicIfDirty(Res(WithStore(S, d.st, S.len), Err(E_NOVAL)))
      ELSE LET S2 == WithStore(S, d.st, S.len - 1) IN
           PanicIfDirty([s |-> S2, rep |-> RVal(d.val.v),
                         ev |-> Notify(S2, path, d.val.v, TRUE, TRUE),
                         ls |-> LsNotify(S2, d.lsn), lk |-> {}])

\* internal_pdelete (worterbuch.rs:912-949)
DoPDelete(S, pat, c) ==
  LET ro == ReadOnlyCheck(pat, c) IN
  IF ro # -1 THEN Res(S, Err(ro))
  ELSE
    LET d0 == NDelM(S.store, <<>>, pat, {SYS})      \* intended: a client wildcard stays out of $SYS
        d1 == NDelM(S.store, <<>>, pat, {})
        d  == IF ~ReachesSysByWildcard(pat, c) THEN d1
              ELSE IF d0 = d1 THEN d0 ELSE IF Flag("D_SYS_WILDCARD") THEN d1 ELSE d0
    IN IF d.err \/ (~Legal(pat) /\ ~Flag("D_LAZY_HASH")) THEN Res(S, Err(E_MULTI))
       ELSE
         LET n  == Cardinality(d.kvs)
             S2 == WithStore(S, d.st, IF S.len >= n THEN S.len - n ELSE 0)
             Ev(acc, kv) == UnionEv(acc, Notify(S2, kv[1], kv[2].v, TRUE, TRUE))
         IN PanicIfDirty([s |-> S2, rep |-> RKvs({<<kv[1], kv[2].v>> : kv \in d.kvs}),
                          ev |-> FoldS(Ev, EmptyF, d.kvs),
                          ls |-> LsNotify(S2, d.lsn), lk |-> {}])

\* publish (worterbuch.rs:438-445): no store access, no read-only check
DoPublish(S, path, v) ==
  IF HasWildcard(path) THEN Res(S, Err(FirstWildErr(path)))
  ELSE IF path[1] = SYS /\ ~Flag("D_PUBLISH_SYS") THEN Res(S, Err(E_RO))
  ELSE [Res(S, Ok) EXCEPT !.ev = Notify(S, path, v, TRUE, FALSE)]

DoSPubInit(S, tid, path, c) ==
  LET ro == ReadOnlyCheck(path, c) IN
  IF ro # -1 THEN Res(S, Err(ro))
  ELSE Res([S EXCEPT !.spub = (<<c, tid>> :> path) @@ @], Ok)

DoSPub(S, tid, v, c) ==
  IF <<c, tid>> \in DOMAIN S.spub THEN DoPublish(S, S.spub[<<c, tid>>], v)
  ELSE Res(S, Err(E_NOPUB))

\* import (worterbuch.rs:678-708, store.rs:876-914): imp is a tree (path -> entry)
DoImport(S, imp) ==
  LET st1 == [q \in DOMAIN S.store \cup DOMAIN imp |->
                IF q \in DOMAIN imp /\ imp[q].k # "none" THEN imp[q]
                ELSE IF q \in DOMAIN S.store THEN S.store[q] ELSE NoneE]
      ins == {q \in DOMAIN imp : imp[q].k # "none"}
      S2  == WithStore(S, st1, CountVals(st1))
      Changed(q) == ~(q \in DOMAIN S.store /\ S.store[q] = imp[q])
      Ev(acc, q) == UnionEv(acc, Notify(S2, q, imp[q].v, Changed(q), FALSE))
      created == DOMAIN st1 \ DOMAIN S.store
      lsnI == [p \in {Parent(q) : q \in created} |-> ChildSegs(st1, p)]
      lsn == IF LsNotify(S2, lsnI) # EmptyF /\ Flag("D_IMPORT_NO_LS") THEN EmptyF ELSE lsnI
  IN [s |-> S2, rep |-> Ok, ev |-> FoldS(Ev, EmptyF, ins), ls |-> LsNotify(S2, lsn), lk |-> {}]

(***************************************************************************)
(* Extended monitoring (config.extended_monitoring): the server keeps      *)
(* $SYS/subscriptions, $SYS/clients/<id>/subscriptions[/<pattern>],        *)
(* $SYS/locks/<key> and $SYS/clients/<id>/connectedSince up to date with   *)
(* internal set/delete requests - ordinary writes with their notifications *)
(* (worterbuch.rs:493-528, 567-602, 730-775, 974-999, 1098-1103, 1236-1243,*)
(* 1361-1373).  Off unless a model overrides ExtMon.                       *)
(***************************************************************************)
ExtMon == FALSE
SUBS == "subscriptions"  LOCKS == "locks"  SINCE == "connectedSince"
NOBODY == "~nobody~"  UNLOCKERR == "~err~"
EscSeg(s) == IF s = "?" THEN "%3F" ELSE IF s = "#" THEN "%23" ELSE s      \* escape_wildcards
Esc(p) == [i \in DOMAIN p |-> EscSeg(p[i])]
NumT(n) == "j:" \o ToString(n)
\* an internal follow-up request: its observations count, its reply does not; a panic does
Mon(r, x) == LET y == ThenKeep(r, x) IN IF y.s.down THEN [y EXCEPT !.rep = Down] ELSE y
ClientSubsKey(c) == <<SYS, CLIENTS, c, SUBS>>
\* update_subscription_count
MonCount(r, c, n) ==
  IF r.s.down THEN r
  ELSE IF n > 0 THEN Mon(r, DoSet(r.s, ClientSubsKey(c), NumT(n), INT, TRUE))
  ELSE Mon(r, DoDelete(r.s, ClientSubsKey(c), INT))
\* Worterbuch::locked
MonLocked(r, holder, path) ==
  IF ~ExtMon \/ r.s.down THEN r
  \* unlock_all maps the refusal of an unlock (the departing client was waiting for the key, or does not
  \* hold it any more) to "no holder" (`.ok().flatten()`, store.rs:1067): the entry of the real holder is
  \* deleted  [D_LOCKMON_WAITER]
  ELSE IF holder = UNLOCKERR /\ ~Flag("D_LOCKMON_WAITER") THEN r
  ELSE IF holder \notin {NOBODY, UNLOCKERR} THEN Mon(r, DoSet(r.s, <<SYS, LOCKS>> \o Esc(path), holder, INT, TRUE))
  ELSE Mon(r, DoDelete(r.s, <<SYS, LOCKS>> \o Esc(path), INT))
Bump(S, c, d) ==      \* ClientInfo.subscriptions, saturating; unknown clients have none
  IF ExtMon /\ c \in DOMAIN S.csubs
    THEN [S EXCEPT !.csubs[c] = IF @ + d < 0 THEN 0 ELSE @ + d] ELSE S
CSubs(S, c) == IF c \in DOMAIN S.csubs THEN S.csubs[c] ELSE 0
\* the bookkeeping after a subscription has been registered (monKey: key, or escaped pattern)
MonSubscribed(r, c, tid, monKey, skip) ==
  IF ~ExtMon \/ r.rep # Ok THEN r
  ELSE LET S3 == Bump(r.s, c, 1)
           r0 == [r EXCEPT !.s = S3]
       IN IF skip \/ c = INT THEN r0
          ELSE LET m1 == Mon(r0, DoSet(S3, <<SYS, SUBS>>, NumT(Cardinality(DOMAIN S3.subIds)), INT, TRUE))
                   m2 == IF m1.s.down THEN m1 ELSE Mon(m1, DoSet(m1.s, ClientSubsKey(c) \o monKey, NumT(tid), INT, TRUE))
               IN MonCount(m2, c, CSubs(S3, c))

(***************************************************************************)
(* Subscriptions (worterbuch.rs:452-646, 710-812)                          *)
(***************************************************************************)
DoSubscribe(S, c, tid, path, unique, liveOnly) ==
  LET id  == <<c, tid>>
      sub == [id |-> id, pat |-> path, kind |-> "s", unique |-> unique]
      S2  == [S EXCEPT !.subs = @ \cup {sub}, !.subIds = (id :> path) @@ @]
      r   == IF ~liveOnly /\ HasWildcard(path) THEN Res(S, Err(FirstWildErr(path)))
             ELSE IF ~liveOnly /\ HasVal(S.store, path)
               THEN [Res(S2, Ok) EXCEPT !.ev = (id :> << {[t |-> "val", kvs |-> {<<path, S.store[path].v>>}]} >>)]
               ELSE Res(S2, Ok)
  IN MonSubscribed(r, c, tid, path, path[1] = SYS)

DoPSubscribe(S, c, tid, pat, unique, liveOnly) ==
  LET id  == <<c, tid>>
      sub == [id |-> id, pat |-> pat, kind |-> "p", unique |-> unique]
      S2  == [S EXCEPT !.subs = @ \cup {sub}, !.subIds = (id :> pat) @@ @]
      r   == PGetKvs(S, pat)
      res == IF ~Legal(pat) /\ ((~liveOnly /\ r.err) \/ ~Flag("D_LAZY_HASH")) THEN Res(S, Err(E_MULTI))
             ELSE IF liveOnly THEN Res(S2, Ok)
             ELSE IF r.err THEN Res(S, Err(E_MULTI))
             ELSE [Res(S2, Ok) EXCEPT
                     !.ev = (id :> << {[t |-> "val", kvs |-> {<<kv[1], kv[2].v>> : kv \in r.kvs}]} >>)]
  IN MonSubscribed(res, c, tid, Esc(pat), pat = <<MULTI>> \/ pat[1] = SYS)

DoUnsubscribe(S, c, tid) ==
  LET id == <<c, tid>> IN
  IF id \notin DOMAIN S.subIds THEN Res(S, Err(E_NOTSUB))
  ELSE LET pat == S.subIds[id]
           rm  == {s \in S.subs : s.id = id /\ s.pat = pat}
           \* do_unsubscribe: the id leaves the table first, the bookkeeping requests follow while the
           \* subscriber is still in the tree, which it leaves last
           S1  == Bump([S EXCEPT !.subIds = RestrictF(@, DOMAIN @ \ {id})], c, -1)
           m0  == Res(S1, Ok)
           m1  == IF ExtMon /\ pat[1] # MULTI /\ pat[1] # SYS /\ c # INT
                    THEN MonCount(Mon(m0, DoDelete(S1, ClientSubsKey(c) \o Esc(pat), INT)), c, CSubs(S1, c))
                    ELSE m0
           m2  == IF ExtMon /\ c # INT /\ ~m1.s.down
                    THEN Mon(m1, DoSet(m1.s, <<SYS, SUBS>>, NumT(Cardinality(DOMAIN m1.s.subIds)), INT, TRUE))
                    ELSE m1
           S2  == [m2.s EXCEPT !.subs = @ \ rm]
       IN IF m2.s.down THEN m2
          ELSE [m2 EXCEPT !.s = S2, !.rep = IF rm = {} THEN Err(E_NOTSUB) ELSE Ok]

DoSubscribeLs(S, c, tid, parent) ==
  LET id   == <<c, tid>>
      list == IF parent \in DOMAIN S.store THEN ChildSegs(S.store, parent) ELSE {}
      S2   == [S EXCEPT !.lsSubs = @ \cup {[id |-> id, parent |-> parent]},
                        !.lsIds = (id :> parent) @@ @]
  IN [Res(S2, Ok) EXCEPT !.ls = (id :> list)]

DoUnsubscribeLs(S, c, tid) ==
  LET id == <<c, tid>> IN
  IF id \notin DOMAIN S.lsIds THEN Res(S, Err(E_NOTSUB))
  ELSE LET parent == S.lsIds[id]
           rm == {s \in S.lsSubs : s.id = id /\ s.parent = parent}
           S2 == [S EXCEPT !.lsSubs = @ \ rm, !.lsIds = RestrictF(@, DOMAIN @ \ {id})]
       IN Res(S2, IF rm = {} THEN Err(E_NOTSUB) ELSE Ok)

(***************************************************************************)
(* Locks (store.rs:67-104, 338-384, 985-1075)                              *)
(***************************************************************************)
LockChildren(N, p) == {q \in N : Len(q) = Len(p) + 1 /\ IsPrefixOf(p, q)}
LockObsolete(S, q) == q \notin DOMAIN S.locks /\ LockChildren(S.lockNodes, q) = {}
CleanLocks(S) == \A q \in S.lockNodes \ {<<>>} : ~LockObsolete(S, q)

\* Store::delete_lock_node: take the value, trim on the way back, assert
DeleteLockNode(S, path) ==
  LET S1 == [S EXCEPT !.locks = RestrictF(@, DOMAIN @ \ {path})]
      RECURSIVE Up(_, _)
      \* trim the direct children of the prefix of length i, then go up
      Up(X, i) ==
        LET p  == SubSeq(path, 1, i)
            X2 == [X EXCEPT !.lockNodes = @ \ {q \in LockChildren(@, p) : LockObsolete(X, q)}]
        IN IF i = 0 THEN X2 ELSE Up(X2, i - 1)
      S2 == IF path = <<>> THEN S1 ELSE Up(S1, Len(path) - 1)
  IN IF LockChildren(S2.lockNodes, <<>>) = {} \/ CleanLocks(S2) THEN S2 ELSE [S2 EXCEPT !.down = TRUE]

GetOrCreateLockNode(S, path) == [S EXCEPT !.lockNodes = @ \cup Prefixes(path)]
PushLocked(S, c, path) ==
  [S EXCEPT !.lockedKeys = (c :> (IF c \in DOMAIN @ THEN Append(@[c], path) ELSE <<path>>)) @@ @]

DoLock(S, path, c) ==
  IF HasWildcard(path) THEN Res(S, Err(FirstWildErr(path)))
  ELSE LET S1 == GetOrCreateLockNode(S, path) IN
    IF path \in DOMAIN S1.locks THEN
      IF S1.locks[path].holder = c THEN MonLocked(Res(S1, Ok), c, path) ELSE Res(S1, Err(E_LOCKED))
    ELSE MonLocked(Res(PushLocked([S1 EXCEPT !.locks = (path :> [holder |-> c, cands |-> <<>>]) @@ @], c, path), Ok), c, path)

\* req identifies the confirmation channel of this request
DoAcquireLock(S, path, c, req) ==
  IF HasWildcard(path) THEN Res(S, Err(FirstWildErr(path)))
  ELSE LET S1 == GetOrCreateLockNode(S, path) IN
    IF path \in DOMAIN S1.locks THEN
      LET l == S1.locks[path] IN
      IF l.holder = c THEN MonLocked([Res(PushLocked(S1, c, path), Ok) EXCEPT !.lk = {<<req, "granted">>}], c, path)
      ELSE LET idx == {i \in 1..Len(l.cands) : l.cands[i].c = c}
               cs  == IF idx = {} THEN Append(l.cands, [c |-> c, reqs |-> {req}])
                      ELSE [i \in 1..Len(l.cands) |->
                              IF i \in idx THEN [l.cands[i] EXCEPT !.reqs = @ \cup {req}] ELSE l.cands[i]]
           IN MonLocked(Res(PushLocked([S1 EXCEPT !.locks[path].cands = cs], c, path), Ok), l.holder, path)
    ELSE MonLocked([Res(PushLocked([S1 EXCEPT !.locks = (path :> [holder |-> c, cands |-> <<>>]) @@ @], c, path), Ok)
                      EXCEPT !.lk = {<<req, "granted">>}], c, path)

\* Store::unlock + Lock::release
Unlock(S, path, c) ==
  LET S1 == IF ~(Prefixes(path) \subseteq S.lockNodes) /\ Flag("D_LOCK_GARBAGE")
              THEN GetOrCreateLockNode(S, path) ELSE S IN
  IF path \in DOMAIN S1.locks THEN
    LET l == S1.locks[path] IN
    IF l.holder = c THEN
      IF l.cands # <<>> THEN
        LET nx == Head(l.cands) IN
        [Res([S1 EXCEPT !.locks[path] = [holder |-> nx.c, cands |-> Tail(l.cands)]], Ok)
           EXCEPT !.lk = {<<r, "granted">> : r \in nx.reqs}]
      ELSE LET S2 == DeleteLockNode(S1, path) IN
           Res(S2, IF S2.down THEN Down ELSE Ok)
    ELSE
      LET gone == {i \in 1..Len(l.cands) : l.cands[i].c = c}
          keep == SelectSeq(l.cands, LAMBDA x : x.c # c)
      IN [Res([S1 EXCEPT !.locks[path].cands = keep], Err(E_LOCKED))
            EXCEPT !.lk = UNION {{<<r, "cancelled">> : r \in l.cands[i].reqs} : i \in gone}]
  ELSE Res(S1, Err(E_NOTLOCKED))

\* whom Store::unlock reports as the new holder
NextHolder(S, path, c) ==
  IF path \in DOMAIN S.locks /\ S.locks[path].holder = c
    THEN IF S.locks[path].cands # <<>> THEN Head(S.locks[path].cands).c ELSE NOBODY
    ELSE UNLOCKERR

DoReleaseLock(S, path, c) ==
  IF HasWildcard(path) THEN Res(S, Err(FirstWildErr(path)))
  ELSE LET r == Unlock(S, path, c) IN
       IF r.rep = Ok THEN MonLocked(r, NextHolder(S, path, c), path) ELSE r

\* Store::unlock_all: every path ever pushed for the client, in order, errors ignored
RECURSIVE UnlockSeq(_, _, _)
UnlockSeq(r, paths, c) ==
  IF paths = <<>> \/ r.s.down THEN r
  ELSE UnlockSeq(ThenKeep(r, Unlock(r.s, Head(paths), c)), Tail(paths), c)

\* the new holders unlock_all reports, path by path (each computed on the state its unlock starts from)
RECURSIVE HoldersSeq(_, _, _)
HoldersSeq(X, paths, c) ==
  IF paths = <<>> \/ X.down THEN <<>>
  ELSE <<NextHolder(X, Head(paths), c)>> \o HoldersSeq(Unlock(X, Head(paths), c).s, Tail(paths), c)
RECURSIVE MonLockedSeq(_, _, _)
MonLockedSeq(r, paths, holders) ==
  IF paths = <<>> \/ holders = <<>> \/ r.s.down THEN r
  ELSE MonLockedSeq(MonLocked(r, Head(holders), Head(paths)), Tail(paths), Tail(holders))

UnlockAll(S, c) ==
  IF c \in DOMAIN S.lockedKeys
    THEN LET S0 == [S EXCEPT !.lockedKeys = RestrictF(@, DOMAIN @ \ {c})]
             r  == UnlockSeq(Res(S0, Ok), S.lockedKeys[c], c)
         \* worterbuch.rs:1235-1243: afterwards, one bookkeeping request per reported key
         IN IF ExtMon THEN MonLockedSeq(r, S.lockedKeys[c], HoldersSeq(S0, S.lockedKeys[c], c)) ELSE r
    ELSE Res(S, Ok)

(***************************************************************************)
(* Sessions (worterbuch.rs:1063-1106, 1220-1378)                           *)
(***************************************************************************)
NumTok(n) == "j:" \o ToString(n)     \* token of a JSON number
ClientsKey == <<SYS, CLIENTS>>
ClientKey(c, leaf) == <<SYS, CLIENTS, c, leaf>>

DoConnected(S, c, proto, addr) ==
  IF c \in S.clients THEN Res(S, Err(E_COLLISION))
  ELSE
    LET S1 == [S EXCEPT !.clients = @ \cup {c}, !.csubs = IF ExtMon THEN (c :> 0) @@ @ ELSE @]
        r1 == DoSet(S1, ClientsKey, NumTok(Cardinality(S1.clients)), INT, TRUE)
        r2 == Then(r1, DoSet(r1.s, ClientKey(c, "protocol"), proto, INT, TRUE))
        r3 == Then(r2, DoSet(r2.s, ClientKey(c, "address"), addr, INT, TRUE))
        \* the time of the connection is environment: the harness reports it as the token "ts"
        r4 == IF ExtMon /\ c # INT THEN Then(r3, DoSet(r3.s, ClientKey(c, SINCE), "ts", INT, TRUE)) ELSE r3
    IN [r4 EXCEPT !.rep = Ok]

GGOf(S, c) ==
  LET k == ClientKey(c, GG) IN
  IF HasVal(S.store, k) /\ S.store[k].v \in DOMAIN Meaning THEN Meaning[S.store[k].v].gg ELSE <<>>
LWOf(S, c) ==
  LET k == ClientKey(c, LW) IN
  IF HasVal(S.store, k) /\ S.store[k].v \in DOMAIN Meaning THEN Meaning[S.store[k].v].lw ELSE <<>>

RECURSIVE BurySeq(_, _, _)
BurySeq(r, ggs, c) ==
  IF ggs = <<>> \/ r.s.down THEN r
  ELSE BurySeq(ThenKeep(r, DoPDelete(r.s, Head(ggs), c)), Tail(ggs), c)

RECURSIVE WillSeq(_, _, _)
WillSeq(r, lws, c) ==
  IF lws = <<>> \/ r.s.down THEN r
  ELSE WillSeq(ThenKeep(r, DoSet(r.s, Head(lws).k, Head(lws).v, c, TRUE)), Tail(lws), c)

\* do_unsubscribe for every subscription of the departing client (extended monitoring: with the
\* bookkeeping requests of each).  The order is that of a HashMap: the events of the whole loop are
\* reported as one unordered batch per subscriber.
RECURSIVE UnsubAll(_, _, _)
UnsubAll(r, ids, c) ==
  IF ids = {} \/ r.s.down THEN r
  ELSE LET id == CHOOSE x \in ids : TRUE IN UnsubAll(ThenKeep(r, DoUnsubscribe(r.s, c, id[2])), ids \ {id}, c)
OneBatch(ev) == [id \in DOMAIN ev |-> << UNION {ev[id][i] : i \in DOMAIN ev[id]} >>]

DoDisconnected(S, c) ==
  LET S1 == [S EXCEPT !.spub = RestrictF(@, {x \in DOMAIN @ : x[1] # c})]
      r2 == UnlockAll(S1, c)
      gg == GGOf(r2.s, c)
      lw == LWOf(r2.s, c)
      S3 == [r2.s EXCEPT !.clients = @ \ {c}, !.csubs = RestrictF(@, DOMAIN @ \ {c})]
      r4 == ThenKeep(r2, DoSet(S3, ClientsKey, NumTok(Cardinality(S3.clients)), INT, TRUE))
      mine == {id \in DOMAIN r4.s.subIds : id[1] = c}
      loop == UnsubAll(Res(r4.s, Ok), mine, c)
      r5x  == Then(r4, [loop EXCEPT !.ev = OneBatch(@)])
      \* do_unsubscribe for every subscription of c.  Its ls-subscriptions are not touched by
      \* `disconnected`: they end when the session drops its receivers, i.e. they are still
      \* notified of everything the remaining sub-steps change
      S5 == [r4.s EXCEPT !.subs = {s \in @ : s.id[1] # c},
                         !.subIds = RestrictF(@, {x \in DOMAIN @ : x[1] # c})]
      r5 == IF ExtMon THEN [r5x EXCEPT !.rep = r4.rep] ELSE [r4 EXCEPT !.s = S5]
      r6 == ThenKeep(r5, DoPDelete(r5.s, <<SYS, CLIENTS, c, MULTI>>, INT))
      r7 == BurySeq(r6, gg, c)
      r8w == WillSeq(r7, lw, c)
      \* worterbuch.rs:1361-1373
      r8 == IF ExtMon /\ ~r8w.s.down
              THEN Mon(r8w, DoSet(r8w.s, <<SYS, SUBS>>, NumT(Cardinality(DOMAIN r8w.s.subIds)), INT, TRUE)) ELSE r8w
      \* ... and are gone afterwards (lazily in the code: at the next failing send)
      S9 == [r8.s EXCEPT !.lsSubs = {s \in @ : s.id[1] # c},
                         !.lsIds = RestrictF(@, {x \in DOMAIN @ : x[1] # c})]
  IN IF r2.s.down THEN [r2 EXCEPT !.rep = Down]
     \* the client count is updated while the departing client's subscriptions still exist: a
     \* subscription of its own that matches $SYS/clients is still sent that one event
     ELSE [r8 EXCEPT !.s = S9, !.rep = IF r8.s.down THEN Down ELSE Ok]

(***************************************************************************)
(* Restart with the JSON persistence: flush (Store::export strips $SYS,    *)
(* registrations are collected from $SYS/clients/?/graveGoods|lastWill),   *)
(* then load into a fresh instance: store, then all grave goods, then all  *)
(* last wills, applied by the internal client (v3.rs load, v2.rs, v1.rs).  *)
(* layout "v1" has no registrations file.                                  *)
(***************************************************************************)
\* a plain value that looks like the file format's tag for CAS entries
\* ({"Cas":[v,n]}) is read back as a CAS entry: ValueEntry is externally tagged
\* for Cas and untagged for Plain (worterbuch-common/src/lib.rs:144-149)
CasShaped(v) == v \in DOMAIN Meaning /\ "cas" \in DOMAIN Meaning[v]
\* a plain JSON null is written as "v":null and read back as "no value" (Option<V>
\* deserialisation, store.rs:141-143): the key is gone, its node stays behind
NullTok == "j:null"
Reloaded(e) ==
  IF e.k = "plain" /\ CasShaped(e.v) /\ Flag("D_CAS_SHAPED")
    THEN CasE(Meaning[e.v].cas.v, Meaning[e.v].cas.n)
  ELSE IF e.k = "plain" /\ e.v = NullTok /\ Flag("D_NULL_RELOAD") THEN NoneE
  ELSE e

RECURSIVE ConcatSeqs(_)
ConcatSeqs(set) ==
  IF set = {} THEN <<>>
  ELSE LET x == CHOOSE y \in set : TRUE IN x \o ConcatSeqs(set \ {x})

AllGG(S) == ConcatSeqs({GGOf(S, c) : c \in {q[3] : q \in {x \in DOMAIN S.store : Len(x) = 4 /\ x[1] = SYS /\ x[2] = CLIENTS /\ x[4] = GG}}})
AllLW(S) == ConcatSeqs({LWOf(S, c) : c \in {q[3] : q \in {x \in DOMAIN S.store : Len(x) = 4 /\ x[1] = SYS /\ x[2] = CLIENTS /\ x[4] = LW}}})

DoRestart(S, layout) ==
  LET keep == {q \in DOMAIN S.store : q = <<>> \/ q[1] # SYS}
      st0  == [q \in keep |-> Reloaded(S.store[q])]
      S0   == [InitS EXCEPT !.store = st0, !.len = CountVals(st0)]
      r1   == IF layout = "v1" THEN Res(S0, Ok) ELSE BurySeq(Res(S0, Ok), AllGG(S), INT)
      r2   == IF layout = "v1" THEN r1 ELSE WillSeq(r1, AllLW(S), INT)
  IN [Res(r2.s, IF r2.s.down THEN Down ELSE Ok) EXCEPT !.lk = UNION {UNION {{<<q, "cancelled">> : q \in S.locks[k].cands[i].reqs}
                                                  : i \in 1..Len(S.locks[k].cands)} : k \in DOMAIN S.locks}]

=============================================================================
