------------------------------- MODULE MC_C09 -------------------------------
(* C09: what was flushed is what is loaded (restart through the JSON persistence) *)
EXTENDS MCBase

a == <<"a">>  ab == <<"a", "b">>  b == <<"b">>  w == <<"w">>
ggk(c) == <<SYS, CLIENTS, c, GG>>
lwk(c) == <<SYS, CLIENTS, c, LW>>
CONSTANTS Layouts_, Vals_

MC_Meaning ==
  [tok \in {"gg1", "lw1", "shaped"} |->
     CASE tok = "gg1" -> [gg |-> << <<"a", "#">> >>, lw |-> <<>>]
       \* one willed key lies inside the buried sub tree: grave goods first, last wills second
       [] tok = "lw1" -> [gg |-> <<>>, lw |-> << [k |-> w, v |-> "v1"], [k |-> ab, v |-> "v2"] >>]
       [] tok = "shaped" -> [gg |-> <<>>, lw |-> <<>>, cas |-> [v |-> "v1", n |-> 2]]]

MC_Alphabet ==
       {[op |-> "set", key |-> k, val |-> v, c |-> "c1"] : k \in {a, ab, b}, v \in Vals_}
  \cup {[op |-> "cset", key |-> k, val |-> "v1", ver |-> n, c |-> "c1"] : k \in {ab, b}, n \in {0, 1}}
  \cup {[op |-> "set", key |-> <<SYS, "x">>, val |-> "v1", c |-> INT]}
  \cup {[op |-> "connect", c |-> "c1", proto |-> "TCP", addr |-> "j:null"]}
  \cup {[op |-> "set", key |-> ggk("c1"), val |-> "gg1", c |-> "c1"],
        [op |-> "set", key |-> lwk("c1"), val |-> "lw1", c |-> "c1"]}
  \cup {[op |-> "restart", layout |-> l, toggle |-> t] : l \in Layouts_, t \in BOOLEAN}

MC_KeyU == {a, ab, b, w, <<SYS, "x">>}
MC_PatU == {<<"#">>}
MC_ParentU == {<<>>, a}
=============================================================================
