------------------------------- MODULE MCBase -------------------------------
(***************************************************************************)
(* Shared scaffolding of the bounded (exhaustive) model-checking configs   *)
(* of CoreSpec: alphabet-driven next-state relation, bounds, the edge      *)
(* emitter used to turn the bounded state graph into replay walks.         *)
(***************************************************************************)
EXTENDS CoreSpec, Json

CONSTANTS
  Alphabet,      \* set of request records
  KeyU, PatU, ParentU,   \* universes the read invariants range over
  MaxVer,        \* bound on CAS versions (state constraint)
  MaxAcq,        \* bound on acquire-lock requests (state constraint)
  MaxSubs,       \* bound on simultaneously live subscriptions / ls-subscriptions
  NeedConnect    \* TRUE: a client must be connected to issue requests

HasClient(r) == "c" \in DOMAIN r

Enabled(r) ==
  /\ ~S.down
  /\ (NeedConnect /\ HasClient(r) /\ r.op # "connect") => r.c \in S.clients \cup {INT}
  /\ r.op \in {"sub", "psub", "subls"} => <<r.c, r.tid>> \notin R.usedIds
  /\ r.op \in {"sub", "psub"} => Cardinality(S.subs) < MaxSubs
  /\ r.op = "subls" => Cardinality(S.lsSubs) < MaxSubs
  /\ r.op = "connect" => r.c \notin S.clients
  /\ r.op = "disconnect" => r.c \in S.clients
  /\ r.op = "spubinit" => <<r.c, r.tid>> \notin DOMAIN S.spub

Next == \E r \in Alphabet : Enabled(r) /\ Step(r)

Spec == Init /\ [][Next]_vars

Bound ==
  /\ \A q \in DOMAIN S.store : S.store[q].n <= MaxVer
  /\ R.nacq <= MaxAcq
  \* Store.locked_keys grows with every lock/acquire until the session ends
  /\ \A c \in DOMAIN S.lockedKeys : Len(S.lockedKeys[c]) <= MaxAcq

\* --- invariants (parameterless, for the cfg) ---
C01Inv == C01State(KeyU, PatU)
C05Inv == C05State(ParentU, PatU)
EdgeInv == EdgeRep /\ EdgeEv /\ EdgeLk /\ EdgeOnce

\* the meaning table travels to the harness with the edge dump
ASSUME PrintT(<<"MEANING", ToJson(Meaning)>>)

\* --- edge emission: VIEW hides the observation so that every abstract
\*     state is expanded once; the action constraint prints every edge ---
AbsView == <<S, R>>
\* Nodes of the replay graph are the implementation-shaped states S: the
\* reference layer R is history and does not influence what the code does.
\* TLC prints records in construction order, so the node identity is a
\* canonical tuple form of S (tuples and sets print canonically).
CanonS(X) ==
  << X.down, X.len, X.clients,
     {<<q, X.store[q].k, X.store[q].v, X.store[q].n>> : q \in DOMAIN X.store},
     {<<s.id, s.pat, s.kind, s.unique>> : s \in X.subs},
     {<<id, X.subIds[id]>> : id \in DOMAIN X.subIds},
     {<<s.id, s.parent>> : s \in X.lsSubs},
     {<<id, X.lsIds[id]>> : id \in DOMAIN X.lsIds},
     {<<k, X.locks[k].holder,
        [i \in 1..Len(X.locks[k].cands) |-> <<X.locks[k].cands[i].c, X.locks[k].cands[i].reqs>>]>> : k \in DOMAIN X.locks},
     X.lockNodes,
     {<<c, X.lockedKeys[c]>> : c \in DOMAIN X.lockedKeys},
     {<<id, X.spub[id]>> : id \in DOMAIN X.spub},
     {<<c, X.csubs[c]>> : c \in DOMAIN X.csubs} >>
\* the node every walk starts from (same canonical form as the edges)
ASSUME PrintT(<<"INIT", ToString(CanonS(InitS))>>)

\* in the edge dump every S is expanded once (VIEW S), so enabledness must not
\* depend on the history R
EnabledE(r) ==
  /\ ~S.down
  /\ (NeedConnect /\ HasClient(r) /\ r.op # "connect") => r.c \in S.clients \cup {INT}
  /\ r.op \in {"sub", "psub", "subls"} => <<r.c, r.tid>> \notin DOMAIN S.subIds \cup DOMAIN S.lsIds
  /\ r.op \in {"sub", "psub"} => Cardinality(S.subs) < MaxSubs
  /\ r.op = "subls" => Cardinality(S.lsSubs) < MaxSubs
  /\ r.op = "connect" => r.c \notin S.clients
  /\ r.op = "disconnect" => r.c \in S.clients
  /\ r.op = "spubinit" => <<r.c, r.tid>> \notin DOMAIN S.spub
NextE == \E r \in Alphabet : EnabledE(r) /\ Step(r)
SpecE == Init /\ [][NextE]_vars
ViewE == S
BoundE ==
  /\ \A q \in DOMAIN S.store : S.store[q].n <= MaxVer
  /\ \A c \in DOMAIN S.lockedKeys : Len(S.lockedKeys[c]) <= MaxAcq
  /\ \A k \in DOMAIN S.locks : \A i \in 1..Len(S.locks[k].cands) : Cardinality(S.locks[k].cands[i].reqs) <= 1
Emit == PrintT(<<"EDGE", ToString(CanonS(S)), ToJson(act'), ToString(CanonS(S'))>>)
=============================================================================
