------------------------------- MODULE MCBase -------------------------------
(***************************************************************************)
(* Shared scaffolding of the bounded (exhaustive) model-checking configs   *)
(* of CoreSpec: alphabet-driven next-state relation, bounds, the edge      *)
(* emitter used to turn the bounded state graph into replay walks.         *)
(***************************************************************************)
EXTENDS CoreSpec, Json

CONSTANTS
  Alphabet,      \* set of request records
  KeyU, PatU, ParentU,   \* universes the read invariants range over
  MaxVer,        \* bound on CAS versions (state constraint)
  MaxAcq,        \* bound on acquire-lock requests (state constraint)
  MaxSubs,       \* bound on simultaneously live subscriptions / ls-subscriptions
  NeedConnect    \* TRUE: a client must be connected to issue requests

HasClient(r) == "c" \in DOMAIN r

Enabled(r) ==
  /\ ~S.down
  /\ (NeedConnect /\ HasClient(r) /\ r.op # "connect") => r.c \in S.clients \cup {INT}
  /\ r.op \in {"sub", "psub", "subls"} => <<r.c, r.tid>> \notin R.usedIds
  /\ r.op \in {"sub", "psub"} => Cardinality(S.subs) < MaxSubs
  /\ r.op = "subls" => Cardinality(S.lsSubs) < MaxSubs
  /\ r.op = "connect" => r.c \notin S.clients
  /\ r.op = "disconnect" => r.c \in S.clients
  /\ r.op = "spubinit" => <<r.c, r.tid>> \notin DOMAIN S.spub

Next == \E r \in Alphabet : Enabled(r) /\ Step(r)

Spec == Init /\ [][Next]_vars

Bound ==
  /\ \A q \in DOMAIN S.store : S.store[q].n <= MaxVer
  /\ R.nacq <= MaxAcq
  \* Store.locked_keys grows with every lock/acquire until the session ends
  /\ \A c \in DOMAIN S.lockedKeys : Len(S.lockedKeys[c]) <= MaxAcq

\* --- invariants (parameterless, for the cfg) ---
C01Inv == C01State(KeyU, PatU)
C05Inv == C05State(ParentU, PatU)
EdgeInv == EdgeRep /\ EdgeEv /\ EdgeLk /\ EdgeOnce

\* the meaning table travels to the harness with the edge dump
ASSUME PrintT(<<"MEANING", ToJson(Meaning)>>)

\* --- edge emission: VIEW hides the observation so that every abstract
\*     state is expanded once; the action constraint prints every edge ---
AbsView == <<S, R>>
Emit == PrintT(<<"EDGE", ToString(<<S, R>>), ToJson(act'), ToString(<<S', R'>>)>>)
=============================================================================
