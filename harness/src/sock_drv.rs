//! Socket-level driver: an in-process server (`spawn_worterbuch`) with a unix
//! socket endpoint, several concurrent client sessions speaking the real line
//! protocol (messages are built and parsed with the `worterbuch_common` types).
//!
//! Input (ndjson): header, then one scenario per line:
//!   {"auth": null | {"secret": "..."},
//!    "sessions": {"s1": [item, ...], ...}}
//! item = a request record of CoreSpec plus "tid" and optional "wait":true,
//!   or {"op":"raw","line":"..."} (sent verbatim), {"op":"proto","version":n},
//!   {"op":"auth","claims":{...}|"bad"}, {"op":"barrier","n":k}, {"op":"close"}.
//! Output (ndjson): header, then one trace object per scenario:
//!   {"sessions": {name: {"cid": name, "log": [record...]}},
//!    "streams": {"<sess>:<tid>": [event...]}, "lsstreams": {...},
//!    "extra": [...unexpected messages...], "down": bool}
//! record = item + {"rep": reply, "inv": n, "ret": n}; replies use the vocabulary of
//! the core driver plus "m" = kind of the terminal message.

use crate::core_drv::base_config;
use crate::util::{Names, b, s, u};
use serde_json::{Map, Value, json};
use std::collections::{BTreeMap, HashMap, VecDeque};
use std::io::{BufRead, BufReader, BufWriter, Write};
use std::path::PathBuf;
use std::sync::Arc;
use std::sync::atomic::{AtomicU64, Ordering};
use std::time::Duration;
use tokio::io::{AsyncBufReadExt, AsyncWriteExt};
use tokio::net::{TcpStream, UnixStream};

/// where the sessions of a scenario connect to: the unix socket or the TCP endpoint of the server
#[derive(Clone)]
pub enum Target {
    Unix(PathBuf),
    Tcp(u16),
}
type RdHalf = Box<dyn tokio::io::AsyncRead + Unpin + Send>;
type WrHalf = Box<dyn tokio::io::AsyncWrite + Unpin + Send>;
use tokio::sync::{Barrier, Mutex, Notify, oneshot};
use worterbuch::{UnixEndpoint, spawn_worterbuch};
use worterbuch_common as wc;
use worterbuch_common::{ClientMessage as CM, PStateEvent, ServerMessage as SM, StateEvent};

#[derive(Default)]
struct SessState {
    /// per tid: requests not yet answered, oldest first: (log index, expects which terminal kinds)
    pending: HashMap<u64, VecDeque<usize>>,
    log: Vec<Value>,
    streams: BTreeMap<u64, Vec<Value>>,
    lsstreams: BTreeMap<u64, Vec<Value>>,
    extra: Vec<Value>,
    closed_by_server: bool,
    welcome: Option<String>,
    open_inv: u64,
    open_ret: u64,
    /// wall clock (ms since the start of the scenario) at which the end of the connection was seen
    closed_ms: Option<u64>,
}

struct Shared {
    clock: AtomicU64,
    names: Mutex<Names>,
    t0: std::time::Instant,
    /// port of the server's HTTP endpoint (REST API), if the scenario asked for it
    rest_port: Option<u16>,
}

fn now_ms(sh: &Shared) -> u64 {
    sh.t0.elapsed().as_millis() as u64
}

/// is some socket listening on this TCP port? (read-only: /proc/net/tcp)
pub fn tcp_listening(port: u16) -> bool {
    let tag = format!(":{port:04X}");
    std::fs::read_to_string("/proc/net/tcp")
        .map(|t| t.lines().skip(1).any(|l| {
            let f: Vec<&str> = l.split_whitespace().collect();
            f.len() > 3 && f[1].ends_with(&tag) && f[3] == "0A"
        }))
        .unwrap_or(true)
}

fn tick(sh: &Shared) -> u64 {
    sh.clock.fetch_add(1, Ordering::SeqCst) + 1
}

fn build_msg(names: &mut Names, r: &Value) -> Option<String> {
    let tid = u(r, "tid");
    let key = |names: &mut Names, f: &str| names.key_in(&r[f]);
    let opt_key = |names: &mut Names, f: &str| {
        let a = r[f].as_array().cloned().unwrap_or_default();
        if a.is_empty() { None } else { Some(names.key_in(&r[f])) }
    };
    let msg = match s(r, "op").as_str() {
        "get" => CM::Get(wc::Get { transaction_id: tid, key: key(names, "key") }),
        "cget" => CM::CGet(wc::Get { transaction_id: tid, key: key(names, "key") }),
        "pget" => CM::PGet(wc::PGet { transaction_id: tid, request_pattern: key(names, "pat") }),
        "set" => CM::Set(wc::Set { transaction_id: tid, key: key(names, "key"), value: names.val_in(&s(r, "val")) }),
        "cset" => CM::CSet(wc::CSet {
            transaction_id: tid,
            key: key(names, "key"),
            value: names.val_in(&s(r, "val")),
            version: u(r, "ver"),
        }),
        "delete" => CM::Delete(wc::Delete { transaction_id: tid, key: key(names, "key") }),
        "pdelete" => CM::PDelete(wc::PDelete { transaction_id: tid, request_pattern: key(names, "pat"), quiet: None }),
        "publish" => CM::Publish(wc::Publish { transaction_id: tid, key: key(names, "key"), value: names.val_in(&s(r, "val")) }),
        "spubinit" => CM::SPubInit(wc::SPubInit { transaction_id: tid, key: key(names, "key") }),
        "spub" => CM::SPub(wc::SPub { transaction_id: tid, value: names.val_in(&s(r, "val")) }),
        "sub" => CM::Subscribe(wc::Subscribe {
            transaction_id: tid,
            key: key(names, "key"),
            unique: b(r, "unique"),
            live_only: Some(b(r, "live")),
        }),
        "psub" => CM::PSubscribe(wc::PSubscribe {
            transaction_id: tid,
            request_pattern: key(names, "pat"),
            unique: b(r, "unique"),
            aggregate_events: r.get("agg").and_then(|x| x.as_u64()),
            live_only: Some(b(r, "live")),
        }),
        "unsub" => CM::Unsubscribe(wc::Unsubscribe { transaction_id: tid }),
        "subls" => CM::SubscribeLs(wc::SubscribeLs { transaction_id: tid, parent: opt_key(names, "parent") }),
        "unsubls" => CM::UnsubscribeLs(wc::UnsubscribeLs { transaction_id: tid }),
        "ls" => CM::Ls(wc::Ls { transaction_id: tid, parent: opt_key(names, "parent") }),
        "pls" => CM::PLs(wc::PLs { transaction_id: tid, parent_pattern: opt_key(names, "pat") }),
        "lock" => CM::Lock(wc::Lock { transaction_id: tid, key: key(names, "key") }),
        "acquire" => CM::AcquireLock(wc::Lock { transaction_id: tid, key: key(names, "key") }),
        "release" => CM::ReleaseLock(wc::Lock { transaction_id: tid, key: key(names, "key") }),
        "transform" => CM::Transform(wc::Transform { transaction_id: tid, key: key(names, "key"), template: json!({}) }),
        "proto" => CM::ProtocolSwitchRequest(wc::ProtocolSwitchRequest { version: u(r, "version") as _ }),
        _ => return None,
    };
    serde_json::to_string(&msg).ok()
}

fn kvs_out(names: &Names, kvs: &[wc::KeyValuePair]) -> Value {
    Value::Array(kvs.iter().map(|kv| json!([names.key_out(&kv.key), names.val_out(&kv.value)])).collect())
}

/// translate a server message into (tid, reply-or-event)
fn classify(names: &Names, m: &SM) -> (u64, Value, &'static str) {
    match m {
        SM::Ack(a) => (a.transaction_id, json!({"t": "ok", "m": "ack"}), "ack"),
        SM::Authorized(a) => (a.transaction_id, json!({"t": "ok", "m": "authorized"}), "authorized"),
        SM::Err(e) => (e.transaction_id, json!({"t": "err", "code": e.error_code.clone() as u8, "m": "err"}), "err"),
        SM::State(st) => match &st.event {
            StateEvent::Value(v) => (st.transaction_id, json!({"t": "val", "v": names.val_out(v), "m": "state", "d": false}), "state"),
            StateEvent::Deleted(v) => (st.transaction_id, json!({"t": "val", "v": names.val_out(v), "m": "state", "d": true}), "state"),
        },
        SM::CState(st) => (
            st.transaction_id,
            json!({"t": "cval", "v": names.val_out(&st.event.value), "n": st.event.version, "m": "cstate"}),
            "cstate",
        ),
        SM::PState(ps) => match &ps.event {
            PStateEvent::KeyValuePairs(k) => (ps.transaction_id, json!({"t": "kvs", "kvs": kvs_out(names, k), "m": "pstate", "d": false}), "pstate"),
            PStateEvent::Deleted(k) => (ps.transaction_id, json!({"t": "kvs", "kvs": kvs_out(names, k), "m": "pstate", "d": true}), "pstate"),
        },
        SM::LsState(l) => (
            l.transaction_id,
            json!({"t": "list", "list": l.children.iter().map(|x| names.seg_out(x)).collect::<Vec<_>>(), "m": "lsstate"}),
            "lsstate",
        ),
        SM::Welcome(_) => (0, json!({"t": "welcome"}), "welcome"),
    }
}

fn terminal_kinds(op: &str) -> &'static [&'static str] {
    match op {
        "get" | "delete" => &["state", "err"],
        "cget" => &["cstate", "err"],
        "pget" | "pdelete" => &["pstate", "err"],
        "ls" | "pls" => &["lsstate", "err"],
        "auth" => &["authorized", "err"],
        _ => &["ack", "err"],
    }
}

struct Session {
    name: String,
    st: Arc<Mutex<SessState>>,
    notify: Arc<Notify>,
}

async fn reader_task(
    rd: RdHalf,
    st: Arc<Mutex<SessState>>,
    notify: Arc<Notify>,
    sh: Arc<Shared>,
    welcome_tx: oneshot::Sender<String>,
) {
    let mut lines = tokio::io::BufReader::new(rd).lines();
    let mut welcome_tx = Some(welcome_tx);
    loop {
        match lines.next_line().await {
            Ok(Some(line)) => {
                let msg: Result<SM, _> = serde_json::from_str(&line);
                let mut g = st.lock().await;
                match msg {
                    Ok(SM::Welcome(w)) => {
                        g.welcome = Some(w.client_id.clone());
                        if let Some(tx) = welcome_tx.take() {
                            tx.send(w.client_id).ok();
                        }
                    }
                    Ok(m) => {
                        let names = sh.names.lock().await;
                        let (tid, val, kind) = classify(&names, &m);
                        drop(names);
                        // terminal message of the oldest unanswered request with this tid that expects this kind?
                        let mut idx = None;
                        if let Some(q) = g.pending.get(&tid) {
                            if let Some(&i) = q.front() {
                                let op = s(&g.log[i], "op");
                                if terminal_kinds(&op).contains(&kind) {
                                    idx = Some(i);
                                }
                            }
                        }
                        if let Some(i) = idx {
                            g.pending.get_mut(&tid).map(|q| q.pop_front());
                            g.log[i]["rep"] = val;
                            g.log[i]["ret"] = json!(tick(&sh));
                        } else {
                            match kind {
                                "state" | "pstate" => {
                                    let d = val["d"].as_bool().unwrap_or(false);
                                    let kvs = if kind == "state" { json!([[Value::Null, val["v"]]]) } else { val["kvs"].clone() };
                                    g.streams.entry(tid).or_default().push(json!({"t": if d { "del" } else { "val" }, "kvs": kvs, "at": tick(&sh)}));
                                }
                                "lsstate" => {
                                    g.lsstreams.entry(tid).or_default().push(val["list"].clone());
                                }
                                _ => {
                                    g.extra.push(json!({"tid": tid, "msg": val}));
                                }
                            }
                        }
                        drop(g);
                        notify.notify_waiters();
                        continue;
                    }
                    Err(_) => {
                        g.extra.push(json!({"unparsable": line}));
                    }
                }
                drop(g);
                notify.notify_waiters();
            }
            _ => {
                let mut g = st.lock().await;
                g.closed_by_server = true;
                g.closed_ms = Some(now_ms(&sh));
                drop(g);
                notify.notify_waiters();
                break;
            }
        }
    }
}

async fn wait_until<F: Fn(&SessState) -> bool>(st: &Arc<Mutex<SessState>>, notify: &Arc<Notify>, f: F, ms: u64) -> bool {
    let deadline = tokio::time::Instant::now() + Duration::from_millis(ms);
    loop {
        let n = notify.notified();
        {
            let g = st.lock().await;
            if f(&g) {
                return true;
            }
        }
        if tokio::time::timeout_at(deadline, n).await.is_err() {
            let g = st.lock().await;
            return f(&g);
        }
    }
}

fn mint_token(secret: &str, claims: &Value) -> String {
    use jsonwebtoken::{Algorithm, EncodingKey, Header, encode};
    encode(&Header::new(Algorithm::HS256), claims, &EncodingKey::from_secret(secret.as_bytes())).unwrap_or_default()
}

/// one HTTP/1.1 request on a connection of its own; returns (status, body)
async fn http(port: u16, method: &str, path: &str, token: Option<&str>, body: Option<String>) -> Option<(u16, String)> {
    use tokio::io::AsyncReadExt;
    // (a refused connection is retried: nothing has been sent yet)
    let mut conn = None;
    for _ in 0..5 {
        match TcpStream::connect(("127.0.0.1", port)).await {
            Ok(c) => {
                conn = Some(c);
                break;
            }
            Err(_) => tokio::time::sleep(Duration::from_millis(40)).await,
        }
    }
    let mut s = conn?;
    let mut req = format!("{method} {path} HTTP/1.1\r\nHost: localhost\r\nConnection: close\r\nAccept: application/json\r\n");
    if let Some(t) = token {
        req += &format!("Authorization: Bearer {t}\r\n");
    }
    if let Some(b) = &body {
        req += &format!("Content-Type: application/json\r\nContent-Length: {}\r\n", b.len());
    }
    req += "\r\n";
    if let Some(b) = &body {
        req += b;
    }
    s.write_all(req.as_bytes()).await.ok()?;
    s.flush().await.ok()?;
    let mut buf = vec![];
    tokio::time::timeout(Duration::from_secs(10), s.read_to_end(&mut buf)).await.ok()?.ok()?;
    let txt = String::from_utf8_lossy(&buf).to_string();
    let (head, rest) = txt.split_once("\r\n\r\n")?;
    let status: u16 = head.split_whitespace().nth(1)?.parse().ok()?;
    let body = if head.to_ascii_lowercase().contains("transfer-encoding: chunked") {
        // chunked: size line, data, ..., 0
        let mut out = String::new();
        let mut r = rest;
        loop {
            let Some((sz, tail)) = r.split_once("\r\n") else { break };
            let n = usize::from_str_radix(sz.trim(), 16).unwrap_or(0);
            if n == 0 || tail.len() < n {
                break;
            }
            out += &tail[..n];
            r = tail[n..].trim_start_matches("\r\n");
        }
        out
    } else {
        rest.to_owned()
    };
    Some((status, body))
}

fn url_key(key: &str) -> String {
    key.bytes()
        .map(|c| if c.is_ascii_alphanumeric() || b"/-_.~$".contains(&c) { (c as char).to_string() } else { format!("%{c:02X}") })
        .collect()
}

/// a "session" that uses the server's REST API: every item is one HTTP request of an anonymous client
async fn run_rest(
    name: &str,
    items: Vec<Value>,
    st: &Arc<Mutex<SessState>>,
    sh: &Arc<Shared>,
    barriers: &Arc<HashMap<u64, Arc<Barrier>>>,
    secret: Option<String>,
) {
    let Some(port) = sh.rest_port else { return };
    let mut token: Option<String> = None;
    let mut tokinfo: Option<(String, Value)> = None;
    for item in items {
        let op = s(&item, "op");
        let mut rec = item.clone();
        rec["c"] = json!(name);
        rec["rest"] = json!(true);
        match op.as_str() {
            "barrier" => {
                if let Some(bar) = barriers.get(&u(&item, "n")) {
                    bar.wait().await;
                }
                continue;
            }
            "sleep" => {
                tokio::time::sleep(Duration::from_millis(u(&item, "ms"))).await;
                continue;
            }
            "auth" => {
                // the token the following requests carry (no request of its own)
                let all = json!({"read": ["#"], "write": ["#"], "delete": ["#"]});
                let full = |p: &Value, exp: u64| json!({"sub": "t", "name": "t", "exp": exp, "worterbuchPrivileges": p});
                let kind = s(&item, "kind");
                let tok = match (&secret, item.get("claims")) {
                    (Some(sec), Some(c)) if c.is_object() && kind == "ok" => {
                        let mut names = sh.names.lock().await;
                        let mut p = Map::new();
                        for k in ["read", "write", "delete"] {
                            let pats: Vec<Value> = c[k].as_array().cloned().unwrap_or_default().iter().map(|x| json!(names.key_in(x))).collect();
                            p.insert(k.to_owned(), Value::Array(pats));
                        }
                        mint_token(sec, &full(&Value::Object(p), 4102444800))
                    }
                    (Some(sec), _) if kind == "expired" => mint_token(sec, &full(&all, 1000)),
                    (_, _) if kind == "forged" => mint_token("not-the-secret", &full(&all, 4102444800)),
                    _ => "garbage.token.value".to_owned(),
                };
                token = Some(tok);
                tokinfo = Some((kind, item.get("claims").cloned().unwrap_or(Value::Null)));
                continue;
            }
            _ => {}
        }
        let (method, path, body) = {
            let mut names = sh.names.lock().await;
            let root = "/api/v1";
            match op.as_str() {
                "get" => ("GET", format!("{root}/get/{}", url_key(&names.key_in(&item["key"]))), None),
                "pget" => ("GET", format!("{root}/pget/{}", url_key(&names.key_in(&item["pat"]))), None),
                "set" => ("POST", format!("{root}/set/{}", url_key(&names.key_in(&item["key"]))), Some(names.val_in(&s(&item, "val")).to_string())),
                "publish" => {
                    ("POST", format!("{root}/publish/{}", url_key(&names.key_in(&item["key"]))), Some(names.val_in(&s(&item, "val")).to_string()))
                }
                "delete" => ("DELETE", format!("{root}/delete/{}", url_key(&names.key_in(&item["key"]))), None),
                "pdelete" => ("DELETE", format!("{root}/pdelete/{}", url_key(&names.key_in(&item["pat"]))), None),
                "ls" => {
                    let a = item["parent"].as_array().cloned().unwrap_or_default();
                    if a.is_empty() { ("GET", format!("{root}/ls"), None) } else { ("GET", format!("{root}/ls/{}", url_key(&names.key_in(&item["parent"]))), None) }
                }
                _ => continue,
            }
        };
        if let Some((kind, claims)) = &tokinfo {
            rec["kind"] = json!(kind);
            rec["claims"] = claims.clone();
        }
        rec["inv"] = json!(tick(sh));
        rec["inv_ms"] = json!(now_ms(sh));
        let ans = http(port, method, &path, token.as_deref(), body).await;
        let rep = {
            let names = sh.names.lock().await;
            match ans {
                None => json!({"t": "none"}),
                Some((status, body)) if status == 200 => {
                    let v: Value = serde_json::from_str(&body).unwrap_or(Value::Null);
                    match op.as_str() {
                        "get" | "delete" => json!({"t": "val", "v": names.val_out(&v)}),
                        "pget" | "pdelete" => match serde_json::from_value::<Vec<wc::KeyValuePair>>(v.clone()) {
                            Ok(k) => json!({"t": "kvs", "kvs": kvs_out(&names, &k)}),
                            Err(_) => json!({"t": "unknown", "body": body}),
                        },
                        "ls" => match serde_json::from_value::<Vec<String>>(v.clone()) {
                            Ok(l) => json!({"t": "list", "list": l.iter().map(|x| names.seg_out(x)).collect::<Vec<_>>()}),
                            Err(_) => json!({"t": "unknown", "body": body}),
                        },
                        _ => {
                            if v == json!("Ok") { json!({"t": "ok"}) } else { json!({"t": "unknown", "body": body}) }
                        }
                    }
                }
                Some((status, body)) => json!({"t": "herr", "status": status, "body": body.chars().take(120).collect::<String>()}),
            }
        };
        rec["ret"] = json!(tick(sh));
        rec["rep"] = rep;
        st.lock().await.log.push(rec);
    }
}

async fn run_session(
    name: String,
    items: Vec<Value>,
    path: Target,
    sh: Arc<Shared>,
    barriers: Arc<HashMap<u64, Arc<Barrier>>>,
    secret: Option<String>,
) -> (String, Arc<Mutex<SessState>>, Option<WrHalf>, Arc<Notify>) {
    let st = Arc::new(Mutex::new(SessState::default()));
    let notify = Arc::new(Notify::new());
    if name.starts_with("rest") {
        run_rest(&name, items, &st, &sh, &barriers, secret).await;
        return (name, st, None, notify);
    }
    st.lock().await.open_inv = tick(&sh);
    let (rd, mut wr): (RdHalf, WrHalf) = match &path {
        Target::Unix(p) => match UnixStream::connect(p).await {
            Ok(s) => {
                let (r, w) = s.into_split();
                (Box::new(r), Box::new(w))
            }
            Err(_) => return (name, st, None, notify),
        },
        Target::Tcp(port) => match TcpStream::connect(("127.0.0.1", *port)).await {
            Ok(s) => {
                s.set_nodelay(true).ok();
                let (r, w) = s.into_split();
                (Box::new(r), Box::new(w))
            }
            Err(_) => return (name, st, None, notify),
        },
    };
    let (wtx, wrx) = oneshot::channel();
    tokio::spawn(reader_task(rd, st.clone(), notify.clone(), sh.clone(), wtx));
    let cid = match tokio::time::timeout(Duration::from_secs(10), wrx).await {
        Ok(Ok(c)) => c,
        _ => return (name, st, Some(wr), notify),
    };
    {
        let mut names = sh.names.lock().await;
        names.bind(&name, &cid);
    }
    st.lock().await.open_ret = tick(&sh);
    let mut open = true;
    let mut last_cget_ver: u64 = 0;
    for item in items {
        let op = s(&item, "op");
        let mut rec = item.clone();
        match op.as_str() {
            "barrier" => {
                if let Some(bar) = barriers.get(&u(&item, "n")) {
                    bar.wait().await;
                }
                continue;
            }
            "sleep" => {
                tokio::time::sleep(Duration::from_millis(u(&item, "ms"))).await;
                continue;
            }
            "close" => {
                if open {
                    rec["inv"] = json!(tick(&sh));
                    drop(wr.shutdown().await);
                    open = false;
                    // the server notices EOF and runs its disconnect procedure; wait (bounded) for the
                    // reader to see the server close its side
                    wait_until(&st, &notify, |g| g.closed_by_server, 5000).await;
                    rec["ret"] = json!(tick(&sh));
                    st.lock().await.log.push(rec);
                }
                continue;
            }
            _ => {}
        }
        if !open {
            continue;
        }
        let line = match op.as_str() {
            "raw" => Some(s(&item, "line")),
            "auth" => {
                // claims in model form: {"read": [[seg..]..], "write": .., "delete": ..} | "bad" | "forged" | "expired"
                let all = json!({"read": ["#"], "write": ["#"], "delete": ["#"]});
                let full = |p: &Value, exp: u64| json!({"sub": "t", "name": "t", "exp": exp, "worterbuchPrivileges": p});
                let kind = s(&item, "kind");
                let tok = match (&secret, item.get("claims")) {
                    (Some(sec), Some(c)) if c.is_object() && kind == "ok" => {
                        let mut names = sh.names.lock().await;
                        let mut p = Map::new();
                        for k in ["read", "write", "delete"] {
                            let pats: Vec<Value> = c[k].as_array().cloned().unwrap_or_default().iter().map(|x| json!(names.key_in(x))).collect();
                            // a privilege without patterns can be written as an empty list or left out of the token
                            if pats.is_empty() && b(&item, "omit_empty") {
                                continue;
                            }
                            p.insert(k.to_owned(), Value::Array(pats));
                        }
                        mint_token(sec, &full(&Value::Object(p), 4102444800))
                    }
                    (Some(sec), _) if kind == "expired" => mint_token(sec, &full(&all, 1000)),
                    (_, _) if kind == "forged" => mint_token("not-the-secret", &full(&all, 4102444800)),
                    _ => "garbage.token.value".to_owned(),
                };
                serde_json::to_string(&CM::AuthorizationRequest(wc::AuthorizationRequest { auth_token: tok })).ok()
            }
            _ => {
                if item.get("ver_from").is_some() {
                    // compare-and-swap cycle: the version comes from this session's last cget answer
                    rec["ver"] = json!(last_cget_ver);
                }
                let mut names = sh.names.lock().await;
                build_msg(&mut names, &rec)
            }
        };
        let Some(line) = line else { continue };
        let tid = if op == "auth" || op == "proto" { 0 } else { u(&item, "tid") };
        let idx;
        {
            let mut g = st.lock().await;
            rec["inv"] = json!(tick(&sh));
            rec["inv_ms"] = json!(now_ms(&sh));
            rec["rep"] = json!({"t": "none"});
            g.log.push(rec);
            idx = g.log.len() - 1;
            if op != "raw" {
                g.pending.entry(tid).or_default().push_back(idx);
            }
        }
        if wr.write_all(format!("{line}\n").as_bytes()).await.is_err() || wr.flush().await.is_err() {
            open = false;
            continue;
        }
        if b(&item, "wait") {
            wait_until(&st, &notify, |g| g.log[idx]["rep"]["t"] != "none" || g.closed_by_server, 10000).await;
            if op == "cget" {
                let g = st.lock().await;
                last_cget_ver = g.log[idx]["rep"]["n"].as_u64().unwrap_or(0);
            }
        }
    }
    (name, st, if open { Some(wr) } else { None }, notify)
}

pub fn main_run(args: &[String]) -> i32 {
    if args.len() < 3 {
        eprintln!("usage: wbverif sock-run <scenarios.ndjson> <trace.ndjson> <scratch-dir>");
        return 2;
    }
    let rt = tokio::runtime::Builder::new_multi_thread().worker_threads(4).enable_all().build().expect("runtime");
    let input = BufReader::new(std::fs::File::open(&args[0]).expect("open input"));
    let mut out = BufWriter::new(std::fs::File::create(&args[1]).expect("create output"));
    let scratch = PathBuf::from(&args[2]);
    std::fs::create_dir_all(&scratch).ok();
    let mut lines = input.lines();
    let hdr_line = lines.next().expect("header").expect("io");
    let hdr: Value = serde_json::from_str(&hdr_line).expect("json");
    writeln!(out, "{hdr_line}").ok();
    let meaning = hdr["meaning"].as_object().cloned().unwrap_or_default();
    let mut n = 0;
    for line in lines {
        let line = line.expect("io");
        if line.trim().is_empty() {
            continue;
        }
        let sc: Value = serde_json::from_str(&line).expect("json");
        n += 1;
        let sock = scratch.join(format!("wb{}_{}.sock", std::process::id(), n));
        let res = rt.block_on(run_scenario(sc, sock.clone(), meaning.clone()));
        let _ = std::fs::remove_file(&sock);
        writeln!(out, "{res}").ok();
    }
    out.flush().ok();
    0
}

async fn run_scenario(sc: Value, sock: PathBuf, meaning: Map<String, Value>) -> Value {
    let mut cfg = base_config().await;
    cfg.unix_endpoint = Some(UnixEndpoint { path: sock.clone() });
    cfg.unix_disabled = false;
    // "transport": "tcp": the sessions use the server's TCP endpoint instead of the unix socket
    let tcp = sc["transport"].as_str() == Some("tcp");
    let mut tcp_port = 0u16;
    if tcp {
        tcp_port = crate::util::private_port();
        cfg.tcp_endpoint = Some(worterbuch::Endpoint { tls: false, bind_addr: [127, 0, 0, 1].into(), port: tcp_port });
        cfg.tcp_disabled = false;
    }
    let target = if tcp { Target::Tcp(tcp_port) } else { Target::Unix(sock.clone()) };
    // "rest": true: the HTTP endpoint is up as well; sessions named rest* use the REST API
    let rest = b(&sc, "rest");
    let mut rest_port = 0u16;
    if rest {
        rest_port = crate::util::private_port();
        cfg.ws_endpoint = Some(worterbuch::WsEndpoint {
            endpoint: worterbuch::Endpoint { tls: false, bind_addr: [127, 0, 0, 1].into(), port: rest_port },
            public_addr: "localhost".to_owned(),
        });
    }
    let secret = sc["auth"]["secret"].as_str().map(|x| x.to_owned());
    if let Some(sec) = &secret {
        cfg.auth_token_key = Some(sec.clone());
    }
    cfg.extended_monitoring = b(&sc, "extmon");
    if let Some(ms) = sc["send_timeout_ms"].as_u64() {
        cfg.send_timeout = Some(Duration::from_millis(ms));
    }
    let (api_tx, api_rx) = oneshot::channel();
    let server = tokio::spawn(async move {
        let r = tosub::build_root("wbverif")
            .catch_no_signals()
            .start(move |subsys| async move {
                let api = spawn_worterbuch(&subsys, cfg).await.map_err(|e| miette::miette!("{e}"))?;
                api_tx.send((api, subsys.clone())).ok();
                subsys.shutdown_requested().await;
                Ok::<(), miette::Error>(())
            })
            .await;
        r.is_ok()
    });
    let Ok((_api, subsys)) = api_rx.await else {
        return json!({"error": "server did not start"});
    };
    // wait for the socket to appear
    for _ in 0..500 {
        // (no probe connection: it would be a session of its own)
        let up = (if tcp { tcp_listening(tcp_port) && sock.exists() } else { sock.exists() }) && (!rest || tcp_listening(rest_port));
        if up {
            break;
        }
        tokio::time::sleep(Duration::from_millis(5)).await;
    }
    let sh = Arc::new(Shared { clock: AtomicU64::new(0), names: Mutex::new(Names::new(meaning)), t0: std::time::Instant::now(),
                                rest_port: if rest { Some(rest_port) } else { None } });
    let sessions = sc["sessions"].as_object().cloned().unwrap_or_default();
    // barriers: every session that mentions barrier n takes part
    let mut counts: HashMap<u64, usize> = HashMap::new();
    for (_, items) in &sessions {
        let mut seen = std::collections::HashSet::new();
        for it in items.as_array().cloned().unwrap_or_default() {
            if s(&it, "op") == "barrier" && seen.insert(u(&it, "n")) {
                *counts.entry(u(&it, "n")).or_default() += 1;
            }
        }
    }
    let barriers: Arc<HashMap<u64, Arc<Barrier>>> = Arc::new(counts.into_iter().map(|(k, c)| (k, Arc::new(Barrier::new(c)))).collect());
    let mut handles = vec![];
    for (name, items) in sessions {
        let items = items.as_array().cloned().unwrap_or_default();
        handles.push(tokio::spawn(run_session(name, items, target.clone(), sh.clone(), barriers.clone(), secret.clone())));
    }
    let mut done = vec![];
    for h in handles {
        if let Ok(x) = h.await {
            done.push(x);
        }
    }
    // quiescence by protocol: every open session does a final round trip, so every terminal
    // message of an earlier request has arrived (per-session FIFO) ...
    let mut open_writers = vec![];
    for (name, st, wr, notify) in done.iter_mut() {
        if let Some(w) = wr.as_mut() {
            let line = serde_json::to_string(&CM::Ls(wc::Ls { transaction_id: 4_000_000_000, parent: Some("__sync".into()) })).unwrap_or_default();
            let idx;
            {
                let mut g = st.lock().await;
                g.log.push(json!({"op": "ls", "parent": ["__sync"], "tid": 4_000_000_000u64, "inv": tick(&sh), "rep": {"t": "none"}, "sync": true}));
                idx = g.log.len() - 1;
                g.pending.entry(4_000_000_000).or_default().push_back(idx);
            }
            if w.write_all(format!("{line}\n").as_bytes()).await.is_ok() {
                let _ = w.flush().await;
                wait_until(st, notify, |g| g.log[idx]["rep"]["t"] != "none" || g.closed_by_server, 10000).await;
            }
            open_writers.push(name.clone());
        }
    }
    // ... and every live subscription is flushed by a marker publish on a key it matches,
    // issued by the harness' own admin session and awaited on the subscription's stream
    let (admin, exact) = run_markers(&done, &target, &sh, secret.is_some()).await;
    // answers to acquire-lock requests come from tasks of their own (grant or cancellation), not in
    // line with the session's other answers: give the outstanding ones a moment
    for _ in 0..60 {
        let mut waiting = false;
        for (_, st, wr, _) in done.iter() {
            let g = st.lock().await;
            if wr.is_some() && !g.closed_by_server && g.log.iter().any(|r| s(r, "op") == "acquire" && r["rep"]["t"] == "none") {
                waiting = true;
            }
        }
        if !waiting {
            break;
        }
        tokio::time::sleep(Duration::from_millis(5)).await;
    }
    let mut sess_out = Map::new();
    let mut streams = Map::new();
    let mut lsstreams = Map::new();
    let mut extra = vec![];
    let mut all = done;
    if let Some(a) = admin {
        all.push(a);
    }
    for (name, st, _wr, _n) in &all {
        let g = st.lock().await;
        sess_out.insert(name.clone(), json!({"cid": name, "log": g.log, "closed": g.closed_by_server, "welcome": g.welcome.is_some(),
                                          "open_inv": g.open_inv, "open_ret": g.open_ret, "closed_ms": g.closed_ms}));
        for (tid, evs) in &g.streams {
            streams.insert(format!("{name}:{tid}"), Value::Array(evs.clone()));
        }
        for (tid, ls) in &g.lsstreams {
            lsstreams.insert(format!("{name}:{tid}"), Value::Array(ls.clone()));
        }
        for e in &g.extra {
            extra.push(json!({"sess": name, "what": e}));
        }
    }
    subsys.request_global_shutdown();
    let clean = tokio::time::timeout(Duration::from_secs(10), server).await.map(|r| r.unwrap_or(false)).unwrap_or(false);
    let res = json!({"sessions": sess_out, "streams": streams, "lsstreams": lsstreams, "extra": extra, "exact": exact,
           "auth_required": secret.is_some(), "server_clean_exit": clean, "extmon": b(&sc, "extmon"),
           "proto": if tcp { "TCP" } else { "UNIX" }, "rest": rest});
    let names = sh.names.lock().await;
    names.translate(&res)
}

/// the admin session: for every live subscription of an open session publish a marker on a
/// matching key and wait until the subscription's stream shows it
async fn run_markers(
    done: &[(String, Arc<Mutex<SessState>>, Option<WrHalf>, Arc<Notify>)],
    sock: &Target,
    sh: &Arc<Shared>,
    secret_set: bool,
) -> (Option<(String, Arc<Mutex<SessState>>, Option<WrHalf>, Arc<Notify>)>, Vec<String>) {
    // collect live subscriptions: acked sub/psub without a later acked unsub, session still open
    let mut targets: Vec<(usize, u64, Vec<String>)> = vec![];
    for (i, (_name, st, wr, _)) in done.iter().enumerate() {
        if wr.is_none() {
            continue;
        }
        let g = st.lock().await;
        if g.closed_by_server {
            continue;
        }
        let mut live: BTreeMap<u64, Vec<String>> = BTreeMap::new();
        for r in &g.log {
            let ok = r["rep"]["t"] == "ok";
            match s(r, "op").as_str() {
                "sub" if ok => {
                    live.insert(u(r, "tid"), r["key"].as_array().map(|a| a.iter().map(|x| x.as_str().unwrap_or("").to_owned()).collect()).unwrap_or_default());
                }
                "psub" if ok => {
                    live.insert(u(r, "tid"), r["pat"].as_array().map(|a| a.iter().map(|x| x.as_str().unwrap_or("").to_owned()).collect()).unwrap_or_default());
                }
                "unsub" if ok => {
                    live.remove(&u(r, "tid"));
                }
                _ => {}
            }
        }
        for (tid, pat) in live {
            targets.push((i, tid, pat));
        }
    }
    if targets.is_empty() || secret_set {
        return (None, vec![]);
    }
    let mut items = vec![];
    let mut waits: Vec<(usize, u64, Vec<String>)> = vec![];
    let mut markers: Vec<(Vec<String>, String)> = vec![];
    for (k, (i, tid, pat)) in targets.iter().enumerate() {
        // a key the pattern matches: wildcards replaced by a marker segment; '#' by one level
        let mut legal = true;
        let key: Vec<String> = pat
            .iter()
            .enumerate()
            .map(|(j, sgm)| {
                if sgm == "#" && j != pat.len() - 1 {
                    legal = false;
                }
                if sgm == "?" || sgm == "#" { "__m".to_owned() } else { sgm.clone() }
            })
            .collect();
        if !legal || key.first().map(|x| x == "$SYS").unwrap_or(false) || key == vec!["".to_owned()] {
            continue;
        }
        let val = format!("__marker{k}");
        items.push(json!({"op": "publish", "key": key, "val": val, "tid": 100 + k as u64, "wait": true, "marker": true}));
        waits.push((*i, *tid, pat.clone()));
        markers.push((key, val));
    }
    if items.is_empty() {
        return (None, vec![]);
    }
    let barriers = Arc::new(HashMap::new());
    let adm = run_session("adm".to_owned(), items, sock.clone(), sh.clone(), barriers, None).await;
    let mut exact = vec![];
    // a stream is complete once it shows every marker its pattern matches (not only its own one)
    for (i, tid, pat) in waits {
        let (name, st, _, notify) = &done[i];
        let mut all = true;
        for (key, val) in &markers {
            let (must, ms) = match crate::util::marker_matches(&pat, key) {
                Some(true) => (true, 5000),
                Some(false) => continue,
                None => (false, 200),
            };
            let seen = wait_until(
                st,
                notify,
                |g| {
                    g.closed_by_server
                        || g.streams.get(&tid).map(|evs| evs.iter().any(|e| e["kvs"].as_array().map(|a| a.iter().any(|kv| kv[1] == val.as_str())).unwrap_or(false))).unwrap_or(false)
                },
                ms,
            )
            .await;
            if must && !seen {
                all = false;
            }
        }
        let g = st.lock().await;
        if all && !g.closed_by_server {
            exact.push(format!("{name}:{tid}"));
        }
    }
    (Some(adm), exact)
}
