//! Driver for a directly constructed core (`worterbuch::verif::Worterbuch`).
//!
//! Input : ndjson; first line `{"hdr":true,"meaning":{..},"proj":bool}`, then one
//!         request per line (the request records of CoreSpec.tla) or `{"op":"reset"}`.
//! Output: ndjson trace; the header, then per request the request itself plus the
//!         observation: `rep`, `ev`, `ls`, `lk` and (optionally) `proj`.

use crate::util::{Names, b, s, u};
use futures::FutureExt;
use serde_json::{Map, Value, json};
use std::collections::{BTreeMap, BTreeSet};
use std::io::{BufRead, BufReader, BufWriter, Write};
use std::panic::AssertUnwindSafe;
use tokio::sync::{mpsc, oneshot};
use worterbuch::Config;
use worterbuch::verif::Worterbuch;
use worterbuch_common::{
    KeyValuePair, PStateEvent, Protocol, StateEvent, error::WorterbuchError,
};

pub enum SubRx {
    S(String, mpsc::Receiver<StateEvent>),
    P(mpsc::Receiver<PStateEvent>),
}

pub struct Core {
    pub wb: Worterbuch,
    pub names: Names,
    pub subs: BTreeMap<String, SubRx>,
    pub ls: BTreeMap<String, mpsc::Receiver<Vec<String>>>,
    pub acq: Vec<(u64, oneshot::Receiver<()>)>,
    pub nacq: u64,
    pub down: bool,
    pub proj: bool,
    pub restarts: u64,
    pub gone: Option<String>,
    pub drop_after: Vec<String>,
    pub extmon: bool,
}

pub async fn base_config() -> Config {
    let mut cfg = Config::new(None).await.expect("config");
    cfg.ws_endpoint = None;
    cfg.tcp_endpoint = None;
    cfg.unix_endpoint = None;
    cfg.use_persistence = false;
    cfg.extended_monitoring = false;
    cfg
}

pub fn err_code(e: &WorterbuchError) -> u64 {
    let code: worterbuch_common::ErrorCode = e.into();
    code as u8 as u64
}

impl Core {
    pub async fn new(meaning: Map<String, Value>, proj: bool) -> Core {
        // header field "extmon": the server's extended monitoring of subscriptions, locks and connection times
        let mut cfg = base_config().await;
        let extmon = meaning.get("__extmon").and_then(|x| x.as_bool()).unwrap_or(false);
        cfg.extended_monitoring = extmon;
        Core {
            extmon,
            wb: Worterbuch::with_config(cfg),
            names: Names::new(meaning),
            subs: BTreeMap::new(),
            ls: BTreeMap::new(),
            acq: Vec::new(),
            nacq: 0,
            down: false,
            proj,
            restarts: 0,
            gone: None,
            drop_after: Vec::new(),
        }
    }

    fn kvs_out(&self, kvs: &[KeyValuePair]) -> Value {
        Value::Array(
            kvs.iter()
                .map(|kv| json!([self.names.key_out(&kv.key), self.names.val_out(&kv.value)]))
                .collect(),
        )
    }

    fn err(e: WorterbuchError) -> Value {
        json!({"t": "err", "code": err_code(&e)})
    }

    fn import_json(&mut self, tree: &Value) -> String {
        // tree: array of {p: [segs], e: {k, v, n}}
        fn insert(names: &mut Names, node: &mut Map<String, Value>, path: &[Value], e: &Value) {
            if path.is_empty() {
                match e["k"].as_str().unwrap_or("none") {
                    "plain" => {
                        node.insert("v".into(), names.val_in(e["v"].as_str().unwrap_or("")));
                    }
                    "cas" => {
                        let v = names.val_in(e["v"].as_str().unwrap_or(""));
                        node.insert("v".into(), json!({"Cas": [v, crate::util::ver_in(e["n"].as_u64().unwrap_or(0))]}));
                    }
                    _ => {}
                }
                return;
            }
            let seg = names.seg_in(path[0].as_str().unwrap_or(""));
            let t = node
                .entry("t".to_owned())
                .or_insert_with(|| Value::Object(Map::new()));
            let child = t
                .as_object_mut()
                .expect("t is an object")
                .entry(seg)
                .or_insert_with(|| Value::Object(Map::new()));
            insert(names, child.as_object_mut().expect("node"), &path[1..], e);
        }
        let mut root = Map::new();
        if let Some(nodes) = tree.as_array() {
            for n in nodes {
                let p = n["p"].as_array().cloned().unwrap_or_default();
                insert(&mut self.names, &mut root, &p, &n["e"]);
            }
        }
        json!({"data": Value::Object(root)}).to_string()
    }

    /// execute one request of the model alphabet against the real core
    async fn exec(&mut self, r: &Value) -> Value {
        let op = s(r, "op");
        let c = s(r, "c");
        match op.as_str() {
            "get" => {
                let k = self.names.key_in(&r["key"]);
                match self.wb.get(&k) {
                    Ok(v) => json!({"t": "val", "v": self.names.val_out(&v)}),
                    Err(e) => Self::err(e),
                }
            }
            "cget" => {
                let k = self.names.key_in(&r["key"]);
                match self.wb.cget(&k) {
                    Ok((v, n)) => json!({"t": "cval", "v": self.names.val_out(&v), "n": crate::util::ver_out(n)}),
                    Err(e) => Self::err(e),
                }
            }
            "pget" => {
                let p = self.names.key_in(&r["pat"]);
                match self.wb.pget(&p) {
                    Ok(kvs) => json!({"t": "kvs", "kvs": self.kvs_out(&kvs)}),
                    Err(e) => Self::err(e),
                }
            }
            "ls" => {
                let parent = r["parent"].as_array().cloned().unwrap_or_default();
                let p = if parent.is_empty() { None } else { Some(self.names.key_in(&r["parent"])) };
                match self.wb.ls(&p) {
                    Ok(l) => json!({"t": "list", "list": l.iter().map(|x| self.names.seg_out(x)).collect::<Vec<_>>()}),
                    Err(e) => Self::err(e),
                }
            }
            "pls" => {
                let pat = r["pat"].as_array().cloned().unwrap_or_default();
                let p = if pat.is_empty() { None } else { Some(self.names.key_in(&r["pat"])) };
                match self.wb.pls(&p) {
                    Ok(l) => json!({"t": "list", "list": l.iter().map(|x| self.names.seg_out(x)).collect::<Vec<_>>()}),
                    Err(e) => Self::err(e),
                }
            }
            "len" => json!({"t": "len", "n": self.wb.len()}),
            "set" => {
                let k = self.names.key_in(&r["key"]);
                let v = self.names.val_in(&s(r, "val"));
                let id = self.names.id(&c);
                match self.wb.set(k, v, id, false).await {
                    Ok(()) => json!({"t": "ok"}),
                    Err(e) => Self::err(e),
                }
            }
            "cset" => {
                let k = self.names.key_in(&r["key"]);
                let v = self.names.val_in(&s(r, "val"));
                let id = self.names.id(&c);
                match self.wb.cset(k, v, crate::util::ver_in(u(r, "ver")), id, false).await {
                    Ok(()) => json!({"t": "ok"}),
                    Err(e) => Self::err(e),
                }
            }
            "delete" => {
                let k = self.names.key_in(&r["key"]);
                let id = self.names.id(&c);
                match self.wb.delete(k, id).await {
                    Ok(v) => json!({"t": "val", "v": self.names.val_out(&v)}),
                    Err(e) => Self::err(e),
                }
            }
            "pdelete" => {
                let p = self.names.key_in(&r["pat"]);
                let id = self.names.id(&c);
                match self.wb.pdelete(p, id).await {
                    Ok(kvs) => json!({"t": "kvs", "kvs": self.kvs_out(&kvs)}),
                    Err(e) => Self::err(e),
                }
            }
            "publish" => {
                let k = self.names.key_in(&r["key"]);
                let v = self.names.val_in(&s(r, "val"));
                match self.wb.publish(k, v).await {
                    Ok(()) => json!({"t": "ok"}),
                    Err(e) => Self::err(e),
                }
            }
            "spubinit" => {
                let k = self.names.key_in(&r["key"]);
                let id = self.names.id(&c);
                match self.wb.spub_init(u(r, "tid"), k, id).await {
                    Ok(()) => json!({"t": "ok"}),
                    Err(e) => Self::err(e),
                }
            }
            "spub" => {
                let v = self.names.val_in(&s(r, "val"));
                let id = self.names.id(&c);
                match self.wb.spub(u(r, "tid"), v, id).await {
                    Ok(()) => json!({"t": "ok"}),
                    Err(e) => Self::err(e),
                }
            }
            "import" => {
                let js = self.import_json(&r["tree"]);
                match self.wb.import(&js).await {
                    Ok(_) => json!({"t": "ok"}),
                    Err(e) => Self::err(e),
                }
            }
            "sub" => {
                let k = self.names.key_in(&r["key"]);
                let id = self.names.id(&c);
                match self.wb.subscribe(id, u(r, "tid"), k.clone(), b(r, "unique"), b(r, "live")).await {
                    Ok((rx, _)) => {
                        self.subs.insert(format!("{}:{}", c, u(r, "tid")), SubRx::S(k, rx));
                        json!({"t": "ok"})
                    }
                    Err(e) => Self::err(e),
                }
            }
            "psub" => {
                let p = self.names.key_in(&r["pat"]);
                let id = self.names.id(&c);
                match self.wb.psubscribe(id, u(r, "tid"), p, b(r, "unique"), b(r, "live")).await {
                    Ok((rx, _)) => {
                        self.subs.insert(format!("{}:{}", c, u(r, "tid")), SubRx::P(rx));
                        json!({"t": "ok"})
                    }
                    Err(e) => Self::err(e),
                }
            }
            "unsub" => {
                let id = self.names.id(&c);
                let res = self.wb.unsubscribe(id, u(r, "tid")).await;
                // the session's forwarding task ends when the core drops its sender: what the core sent
                // before that is still forwarded; the receiver is dropped after the step has been observed
                self.drop_after.push(format!("{}:{}", c, u(r, "tid")));
                match res {
                    Ok(()) => json!({"t": "ok"}),
                    Err(e) => Self::err(e),
                }
            }
            "subls" => {
                let parent = r["parent"].as_array().cloned().unwrap_or_default();
                let p = if parent.is_empty() { None } else { Some(self.names.key_in(&r["parent"])) };
                let id = self.names.id(&c);
                match self.wb.subscribe_ls(id, u(r, "tid"), p).await {
                    Ok((rx, _)) => {
                        self.ls.insert(format!("{}:{}", c, u(r, "tid")), rx);
                        json!({"t": "ok"})
                    }
                    Err(e) => Self::err(e),
                }
            }
            "unsubls" => {
                let id = self.names.id(&c);
                let res = self.wb.unsubscribe_ls(id, u(r, "tid"));
                self.ls.remove(&format!("{}:{}", c, u(r, "tid")));
                match res {
                    Ok(()) => json!({"t": "ok"}),
                    Err(e) => Self::err(e),
                }
            }
            "lock" => {
                let k = self.names.key_in(&r["key"]);
                let id = self.names.id(&c);
                match self.wb.lock(k, id).await {
                    Ok(()) => json!({"t": "ok"}),
                    Err(e) => Self::err(e),
                }
            }
            "acquire" => {
                let k = self.names.key_in(&r["key"]);
                let id = self.names.id(&c);
                self.nacq += 1;
                match self.wb.acquire_lock(k, id).await {
                    Ok(rx) => {
                        self.acq.push((self.nacq, rx));
                        json!({"t": "ok"})
                    }
                    Err(e) => Self::err(e),
                }
            }
            "release" => {
                let k = self.names.key_in(&r["key"]);
                let id = self.names.id(&c);
                match self.wb.release_lock(k, id).await {
                    Ok(()) => json!({"t": "ok"}),
                    Err(e) => Self::err(e),
                }
            }
            "connect" => {
                let id = self.names.fresh(&c);
                let proto = match s(r, "proto").as_str() {
                    "WS" => Protocol::WS,
                    "HTTP" => Protocol::HTTP,
                    "UNIX" => Protocol::UNIX,
                    _ => Protocol::TCP,
                };
                match self.wb.connected(id, None, &proto).await {
                    Ok(()) => json!({"t": "ok"}),
                    Err(e) => Self::err(e),
                }
            }
            "disconnect" => {
                let id = self.names.id(&c);
                // the session's forwarding tasks live until the core has dropped its subscriptions;
                // its receivers are dropped after the step has been observed (see `step`)
                self.gone = Some(format!("{c}:"));
                match self.wb.disconnected(id, None).await {
                    Ok(()) => json!({"t": "ok"}),
                    Err(e) => Self::err(e),
                }
            }
            "restart" => {
                // flush with the JSON backend, optionally re-lay the files out the way the two
                // earlier schemas did, load into a fresh instance
                let layout = s(r, "layout");
                let dir = std::env::var("WBVERIF_SCRATCH").map(std::path::PathBuf::from).unwrap_or_else(|_| std::env::temp_dir()).join(format!("wbverif_restart_{}_{}", std::process::id(), self.nacq + 1_000_000 * (self.restarts + 1)));
                self.restarts += 1;
                let _ = std::fs::remove_dir_all(&dir);
                std::fs::create_dir_all(&dir).expect("mkdir");
                let mut cfg = base_config().await;
                cfg.use_persistence = true;
                cfg.extended_monitoring = self.extmon;
                cfg.persistence_mode = worterbuch::PersistenceMode::Json;
                cfg.data_dir = dir.to_string_lossy().to_string();
                worterbuch::verif::unlock_persistence();
                let rep = match worterbuch::verif::json_flush(&mut self.wb, &cfg).await {
                    Err(e) => json!({"t": "err", "code": 3, "detail": e}),
                    Ok(()) => {
                        relayout(&dir, &layout, b(r, "toggle"));
                        match worterbuch::verif::json_load(&cfg).await {
                            Ok(wb) => {
                                self.wb = wb;
                                self.subs.clear();
                                self.ls.clear();
                                json!({"t": "ok"})
                            }
                            Err(e) => json!({"t": "err", "code": 3, "detail": e}),
                        }
                    }
                };
                let _ = std::fs::remove_dir_all(&dir);
                rep
            }
            other => json!({"t": "unknown", "op": other}),
        }
    }

    fn drain(&mut self) -> (Value, Value, Value) {
        let mut ev = Map::new();
        for (id, rx) in self.subs.iter_mut() {
            let mut list = vec![];
            match rx {
                SubRx::S(key, rx) => {
                    while let Ok(e) = rx.try_recv() {
                        let (t, v) = match &e {
                            StateEvent::Value(v) => ("val", v),
                            StateEvent::Deleted(v) => ("del", v),
                        };
                        list.push(json!({"t": t, "kvs": [[self.names.key_out(key), self.names.val_out(v)]]}));
                    }
                }
                SubRx::P(rx) => {
                    while let Ok(e) = rx.try_recv() {
                        let (t, kvs) = match &e {
                            PStateEvent::KeyValuePairs(k) => ("val", k),
                            PStateEvent::Deleted(k) => ("del", k),
                        };
                        let kvs: Vec<Value> = kvs
                            .iter()
                            .map(|kv| json!([self.names.key_out(&kv.key), self.names.val_out(&kv.value)]))
                            .collect();
                        list.push(json!({"t": t, "kvs": kvs}));
                    }
                }
            }
            if !list.is_empty() {
                ev.insert(id.clone(), Value::Array(list));
            }
        }
        let mut ls = Map::new();
        for (id, rx) in self.ls.iter_mut() {
            let mut lists = vec![];
            while let Ok(l) = rx.try_recv() {
                lists.push(json!(l.iter().map(|x| self.names.seg_out(x)).collect::<Vec<_>>()));
            }
            if !lists.is_empty() {
                ls.insert(id.clone(), Value::Array(lists));
            }
        }
        let mut lk = vec![];
        let mut keep = vec![];
        for (req, mut rx) in std::mem::take(&mut self.acq) {
            match rx.try_recv() {
                Ok(()) => lk.push(json!([req, "granted"])),
                Err(oneshot::error::TryRecvError::Closed) => lk.push(json!([req, "cancelled"])),
                Err(oneshot::error::TryRecvError::Empty) => keep.push((req, rx)),
            }
        }
        self.acq = keep;
        (Value::Object(ev), Value::Object(ls), Value::Array(lk))
    }

    /// everything a client can read: flat content with versions, entry count, node set
    fn projection(&mut self) -> Value {
        let mut flat = vec![];
        if let Ok(kvs) = self.wb.pget("#") {
            for kv in kvs {
                let n = self.wb.cget(&kv.key).map(|x| crate::util::ver_out(x.1)).unwrap_or(2_100_000_000);
                flat.push(json!([self.names.key_out(&kv.key), self.names.val_out(&kv.value), n]));
            }
        }
        // node set through recursive ls
        let mut nodes: BTreeSet<Vec<String>> = BTreeSet::new();
        let mut todo: Vec<Vec<String>> = vec![vec![]];
        while let Some(p) = todo.pop() {
            let parent = if p.is_empty() { None } else { Some(p.join("/")) };
            if let Ok(children) = self.wb.ls(&parent) {
                for ch in children {
                    let mut q = p.clone();
                    q.push(ch);
                    if nodes.insert(q.clone()) {
                        todo.push(q);
                    }
                }
            }
        }
        let nodes: Vec<Value> = nodes
            .iter()
            .map(|p| Value::Array(p.iter().map(|x| json!(self.names.seg_out(x))).collect()))
            .collect();
        json!({"flat": flat, "len": self.wb.len(), "nodes": nodes})
    }

    /// run one request, catching a panic of the code under test
    pub async fn step(&mut self, r: &Value) -> Value {
        let mut rec = r.clone();
        if self.down {
            rec["rep"] = json!({"t": "down"});
            rec["ev"] = json!({});
            rec["ls"] = json!({});
            rec["lk"] = json!([]);
            return rec;
        }
        let res = AssertUnwindSafe(self.exec(r)).catch_unwind().await;
        match res {
            Ok(rep) => {
                rec["rep"] = rep;
                let (mut ev, mut ls, lk) = self.drain();
                for k in self.drop_after.drain(..) {
                    self.subs.remove(&k);
                }
                if let Some(prefix) = self.gone.take() {
                    self.subs.retain(|k, _| !k.starts_with(&prefix));
                    self.ls.retain(|k, _| !k.starts_with(&prefix));
                    // what the core still sent to the departing session's own subscriptions is seen by nobody
                    if let Some(o) = ev.as_object_mut() {
                        o.retain(|k, _| !k.starts_with(&prefix));
                    }
                    if let Some(o) = ls.as_object_mut() {
                        o.retain(|k, _| !k.starts_with(&prefix));
                    }
                }
                rec["ev"] = ev;
                rec["ls"] = ls;
                rec["lk"] = lk;
                if self.proj || b(r, "probe") {
                    let p = std::panic::catch_unwind(AssertUnwindSafe(|| self.projection()));
                    if let Ok(p) = p {
                        rec["proj"] = p;
                    }
                }
            }
            Err(_) => {
                // the core task panicked: what it had sent before is still delivered
                self.down = true;
                rec["rep"] = json!({"t": "down"});
                let (ev, ls, lk) = self.drain();
                rec["ev"] = ev;
                rec["ls"] = ls;
                rec["lk"] = lk;
            }
        }
        rec
    }
}

/// rewrite a freshly flushed v3 directory into the layout of the earlier persistence schemas
/// (only loaders for them exist in the tree): v2 = hidden files without checksums sharing the
/// `.toggle`; v1 = one `.store.json` with a `.store.sha` (no registrations file).
fn relayout(dir: &std::path::Path, layout: &str, other_toggle: bool) {
    use sha2::{Digest, Sha256};
    let toggle = dir.join(".toggle");
    let slot = if toggle.exists() { "a" } else { "b" };
    let store = dir.join(format!("store.{slot}.json"));
    let gglw = dir.join(format!("gglw.{slot}.json"));
    match layout {
        "v2" => {
            // optionally move the snapshot to the other slot, to cover both toggle states
            let target = if other_toggle { if slot == "a" { "b" } else { "a" } } else { slot };
            let _ = std::fs::rename(&store, dir.join(format!(".store.{target}.json")));
            let _ = std::fs::rename(&gglw, dir.join(format!(".gglw.{target}.json")));
            if target == "a" {
                let _ = std::fs::File::create(&toggle);
            } else {
                let _ = std::fs::remove_file(&toggle);
            }
            for f in ["store.a.json.sha256", "store.b.json.sha256", "gglw.a.json.sha256", "gglw.b.json.sha256"] {
                let _ = std::fs::remove_file(dir.join(f));
            }
        }
        "v1" => {
            if let Ok(json) = std::fs::read_to_string(&store) {
                let mut h = Sha256::new();
                h.update(&json);
                let sum = hex::encode(h.finalize());
                let _ = std::fs::write(dir.join(".store.json"), json);
                let _ = std::fs::write(dir.join(".store.sha"), sum);
            }
            for f in std::fs::read_dir(dir).into_iter().flatten().flatten() {
                let n = f.file_name().to_string_lossy().to_string();
                if n != ".store.json" && n != ".store.sha" {
                    let _ = std::fs::remove_file(f.path());
                }
            }
        }
        _ => {
            if other_toggle {
                // same snapshot in the other slot
                let target = if slot == "a" { "b" } else { "a" };
                for (f, t) in [("store", "json"), ("store", "json.sha256"), ("gglw", "json"), ("gglw", "json.sha256")] {
                    let _ = std::fs::rename(dir.join(format!("{f}.{slot}.{t}")), dir.join(format!("{f}.{target}.{t}")));
                }
                if target == "a" {
                    let _ = std::fs::File::create(&toggle);
                } else {
                    let _ = std::fs::remove_file(&toggle);
                }
            }
        }
    }
}

pub fn main_run(args: &[String]) -> i32 {
    if args.len() < 2 {
        eprintln!("usage: wbverif core-run <requests.ndjson> <trace.ndjson>");
        return 2;
    }
    let rt = tokio::runtime::Builder::new_current_thread()
        .enable_all()
        .build()
        .expect("runtime");
    let input = BufReader::new(std::fs::File::open(&args[0]).expect("open input"));
    let mut out = BufWriter::new(std::fs::File::create(&args[1]).expect("create output"));
    rt.block_on(async move {
        let mut lines = input.lines();
        let hdr: Value = serde_json::from_str(&lines.next().expect("header").expect("io")).expect("json");
        let mut meaning = hdr["meaning"].as_object().cloned().unwrap_or_default();
        if hdr["extmon"].as_bool().unwrap_or(false) {
            meaning.insert("__extmon".to_owned(), json!(true));
        }
        let proj = hdr["proj"].as_bool().unwrap_or(false);
        writeln!(out, "{}", hdr).ok();
        let mut core = Core::new(meaning.clone(), proj).await;
        for line in lines {
            let line = line.expect("io");
            if line.trim().is_empty() {
                continue;
            }
            let r: Value = serde_json::from_str(&line).expect("json");
            if s(&r, "op") == "reset" {
                core = Core::new(meaning.clone(), proj).await;
                writeln!(out, "{}", r).ok();
                continue;
            }
            let rec = core.step(&r).await;
            writeln!(out, "{}", rec).ok();
        }
        out.flush().ok();
    });
    0
}
