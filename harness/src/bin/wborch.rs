//! The cluster orchestrator of /repo as a process of its own (C19 drives it as a black box:
//! scripted UDP peers and a stub server executable).  Same `main` as
//! worterbuch-cluster-orchestrator/src/main.rs, built from the working tree through the
//! path dependency.
use std::time::Duration;
use worterbuch_cluster_orchestrator::instrument_and_run_main;

#[tokio::main(flavor = "current_thread")]
async fn main() -> miette::Result<()> {
    tosub::build_root("cluster-orchestrator")
        .catch_signals()
        .with_timeout(Duration::from_secs(5))
        .start(instrument_and_run_main)
        .await?;
    Ok(())
}
