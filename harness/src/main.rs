//! wbverif: conformance harness binding the TLA+ specifications in /verif/spec
//! to the worterbuch implementation in /repo.
//!
//! Every sub-command drives the real code and writes an ndjson trace, one record
//! per specification action; TLC decides (trace validation) whether the trace is
//! a behaviour of the specification.  The harness itself never judges.

mod agg_drv;
mod client_drv;
mod cluster_drv;
mod core_drv;
mod persist_drv;
mod redb_drv;
mod sock_drv;
mod util;

/// the real auth::pattern_matches on a table of (grant, requested pattern) pairs
fn auth_run(args: &[String]) -> i32 {
    use std::io::{BufRead, Write};
    if args.len() < 2 {
        eprintln!("usage: wbverif auth-run <pairs.ndjson> <answers.ndjson>");
        return 2;
    }
    let input = std::io::BufReader::new(std::fs::File::open(&args[0]).expect("open input"));
    let mut out = std::io::BufWriter::new(std::fs::File::create(&args[1]).expect("create output"));
    for (i, line) in input.lines().enumerate() {
        let line = line.expect("io");
        if i == 0 {
            writeln!(out, "{line}").ok();
            continue;
        }
        let r: serde_json::Value = serde_json::from_str(&line).expect("json");
        let join = |v: &serde_json::Value| v.as_array().map(|a| a.iter().map(|x| x.as_str().unwrap_or("")).collect::<Vec<_>>().join("/")).unwrap_or_default();
        let res = worterbuch::verif::pattern_matches(&join(&r["g"]), &join(&r["p"]));
        writeln!(out, "{}", serde_json::json!({"g": r["g"], "p": r["p"], "res": res})).ok();
    }
    out.flush().ok();
    0
}

fn main() {
    let args: Vec<String> = std::env::args().collect();
    if args.len() < 2 {
        eprintln!("usage: wbverif <command> ...");
        std::process::exit(2);
    }
    // WBVERIF_LOG=<filter>: the log output of the code under test on stderr (debugging aid)
    if let Ok(f) = std::env::var("WBVERIF_LOG") {
        let _ = tracing_subscriber::fmt().with_env_filter(tracing_subscriber::EnvFilter::new(f)).with_writer(std::io::stderr).try_init();
    }
    // a panic in the code under test is an observation, not noise on stderr
    if std::env::var("WBVERIF_PANIC_MSG").is_err() {
        std::panic::set_hook(Box::new(|_| {}));
    }
    let code = match args[1].as_str() {
        "core-run" => core_drv::main_run(&args[2..]),
        "agg-run" => agg_drv::main_run(&args[2..]),
        "cluster-run" => cluster_drv::main_run(&args[2..]),
        "redb-run" => redb_drv::main_run(&args[2..]),
        "persist-run" => persist_drv::main_run(&args[2..]),
        "sock-run" => sock_drv::main_run(&args[2..]),
        "auth-run" => auth_run(&args[2..]),
        "client-run" => client_drv::main_run(&args[2..]),
        "buffer-run" => client_drv::buffer_run(&args[2..]),
        other => {
            eprintln!("unknown command {other}");
            2
        }
    };
    std::process::exit(code);
}
