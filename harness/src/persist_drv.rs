//! Driver for the JSON persistence (C09 / C10): real flushes with a crash armed at
//! a chosen file-system step, real load chain, recovered generations read back.
//!
//! Scenario input (ndjson): header, then
//!   {"op":"reset"}                      fresh data directory, fresh core, generation 1
//!   {"op":"mutate"}                     new generation
//!   {"op":"flush"[,"crash_at":k]}       flush; die after the k-th file-system step
//!   {"op":"load"[,"crash_at":k]}        (after a crash) run the load chain; die after step k
//! Output: one record per action of Persist.tla: {"step": name [, "store": g, "gglw": g]}.
//!
//! Content encoding of generation n: key `k` = "g<n>", key `gone` = "x", client c1
//! registered with grave goods ["gone"] and last will [{lw = "g<n>"}].  After a load
//! `k` tells the store generation, `lw` the generation of the applied registrations.

use futures::FutureExt;
use serde_json::{Value, json};
use std::panic::AssertUnwindSafe;
use std::io::{BufRead, BufReader, BufWriter, Write};
use std::path::PathBuf;
use uuid::Uuid;
use worterbuch::verif::{self, Worterbuch};
use worterbuch::{Config, PersistenceMode};
use worterbuch_common::Protocol;

use crate::core_drv::base_config;
use crate::util::s;

struct P {
    dir: PathBuf,
    cfg: Config,
    wb: Option<Worterbuch>,
    generation: u64,
    fresh: u64,
    client: Uuid,
    nclient: u128,
}

async fn cfg_for(dir: &PathBuf) -> Config {
    let mut cfg = base_config().await;
    cfg.use_persistence = true;
    cfg.persistence_mode = PersistenceMode::Json;
    cfg.data_dir = dir.to_string_lossy().to_string();
    cfg
}

impl P {
    async fn new(root: &PathBuf, n: usize) -> P {
        let dir = root.join(format!("d{n}"));
        let _ = std::fs::remove_dir_all(&dir);
        std::fs::create_dir_all(&dir).expect("mkdir");
        let cfg = cfg_for(&dir).await;
        let mut p = P {
            dir,
            cfg: cfg.clone(),
            wb: Some(Worterbuch::with_config(cfg)),
            generation: 1,
            fresh: 1,
            client: Uuid::nil(),
            nclient: 0,
        };
        p.establish().await;
        p
    }

    /// make the in-memory state carry the current generation
    async fn establish(&mut self) {
        let g = format!("g{}", self.generation);
        let wb = self.wb.as_mut().expect("running");
        self.nclient += 1;
        let old = self.client;
        if old != Uuid::nil() {
            // a re-registration by a fresh session; the old one leaves without registrations
            let _ = wb.delete(format!("$SYS/clients/{old}/graveGoods"), old).await;
            let _ = wb.delete(format!("$SYS/clients/{old}/lastWill"), old).await;
            let _ = wb.disconnected(old, None).await;
        }
        self.client = Uuid::from_u128(0xABCD_0000u128 + self.nclient);
        let c = self.client;
        wb.connected(c, None, &Protocol::TCP).await.expect("connect");
        let int = Uuid::nil();
        wb.set("k".into(), json!(g), int, true).await.expect("set k");
        wb.set("gone".into(), json!("x"), int, true).await.expect("set gone");
        let _ = wb.delete("lw".into(), int).await;
        wb.set(format!("$SYS/clients/{c}/graveGoods"), json!(["gone"]), c, false)
            .await
            .expect("gg");
        wb.set(
            format!("$SYS/clients/{c}/lastWill"),
            json!([{"key": "lw", "value": g}]),
            c,
            false,
        )
        .await
        .expect("lw");
    }

    fn readback(&self) -> (i64, i64, bool) {
        let wb = self.wb.as_ref().expect("running");
        let genof = |v: Value| -> i64 {
            v.as_str()
                .and_then(|s| s.strip_prefix('g'))
                .and_then(|n| n.parse::<i64>().ok())
                .unwrap_or(-2)
        };
        let store = wb.get(&"k".to_owned()).map(genof).unwrap_or(0);
        let gglw = wb.get(&"lw".to_owned()).map(genof).unwrap_or(-1);
        let gone = wb.get(&"gone".to_owned()).is_ok();
        (store, gglw, gone)
    }
}

pub fn main_run(args: &[String]) -> i32 {
    if args.len() < 3 {
        eprintln!("usage: wbverif persist-run <scenarios.ndjson> <trace.ndjson> <scratch-dir>");
        return 2;
    }
    let rt = tokio::runtime::Builder::new_current_thread()
        .enable_all()
        .build()
        .expect("runtime");
    let input = BufReader::new(std::fs::File::open(&args[0]).expect("open input"));
    let mut out = BufWriter::new(std::fs::File::create(&args[1]).expect("create output"));
    let root = PathBuf::from(&args[2]);
    verif::unlock_persistence();
    rt.block_on(async move {
        let mut lines = input.lines();
        let hdr = lines.next().expect("header").expect("io");
        writeln!(out, "{hdr}").ok();
        let mut n = 0usize;
        let mut p = P::new(&root, n).await;
        let emit = |out: &mut BufWriter<std::fs::File>, v: Value| {
            writeln!(out, "{v}").ok();
        };
        for line in lines {
            let line = line.expect("io");
            if line.trim().is_empty() {
                continue;
            }
            let r: Value = serde_json::from_str(&line).expect("json");
            match s(&r, "op").as_str() {
                "reset" => {
                    let _ = std::fs::remove_dir_all(&p.dir);
                    n += 1;
                    p = P::new(&root, n).await;
                    emit(&mut out, json!({"step": "reset"}));
                }
                "mutate" => {
                    if p.wb.is_some() {
                        // a new content, or (with "to") one the store had before
                        p.generation = r.get("to").and_then(|x| x.as_u64()).unwrap_or(p.fresh + 1);
                        p.fresh = p.fresh.max(p.generation);
                        p.establish().await;
                        emit(&mut out, json!({"step": "mutate", "gen": p.generation}));
                    }
                }
                "flush" => {
                    let crash_at = r.get("crash_at").and_then(|x| x.as_u64());
                    if let Some(wb) = p.wb.as_mut() {
                        verif::fs_trace_begin(crash_at.map(|x| x as usize));
                        let res = AssertUnwindSafe(verif::json_flush(wb, &p.cfg)).catch_unwind().await;
                        let crashed = res.is_err();
                        let res = res.unwrap_or(Err("crashed".to_owned()));
                        let steps = verif::fs_trace_end();
                        for st in &steps {
                            emit(&mut out, json!({"step": st}));
                        }
                        if crashed {
                            p.wb = None; // the process is gone
                            emit(&mut out, json!({"step": "crash"}));
                        } else if let Err(e) = res {
                            emit(&mut out, json!({"step": "flush-error", "error": e}));
                        }
                    }
                }
                "crash" => {
                    if p.wb.is_some() {
                        p.wb = None;
                        emit(&mut out, json!({"step": "crash"}));
                    }
                }
                "load" => {
                    if p.wb.is_none() {
                        let crash_at = r.get("crash_at").and_then(|x| x.as_u64());
                        emit(&mut out, json!({"step": "load-begin"}));
                        verif::fs_trace_begin(crash_at.map(|x| x as usize));
                        let res = AssertUnwindSafe(verif::json_load(&p.cfg)).catch_unwind().await;
                        let crashed = res.is_err();
                        let res = match res {
                            Ok(r) => r,
                            Err(_) => Err("crashed".to_owned()),
                        };
                        let steps = verif::fs_trace_end();
                        for st in &steps {
                            emit(&mut out, json!({"step": st}));
                        }
                        if crashed {
                            emit(&mut out, json!({"step": "crash"}));
                        } else {
                            match res {
                                Ok(wb) => p.wb = Some(wb),
                                Err(_) => p.wb = Some(Worterbuch::with_config(p.cfg.clone())),
                            }
                            let (store, gglw, gone) = p.readback();
                            p.generation = p.fresh + 1;
                            p.fresh = p.generation;
                            emit(&mut out, json!({"step": "loaded", "store": store, "gglw": gglw, "gone": gone, "mem": p.generation}));
                            p.client = Uuid::nil();
                            p.establish().await;
                        }
                    }
                }
                other => {
                    emit(&mut out, json!({"step": "unknown", "op": other}));
                }
            }
        }
        let _ = std::fs::remove_dir_all(&p.dir);
        out.flush().ok();
    });
    0
}
