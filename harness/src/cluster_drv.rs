//! Leader / follower driver (C11, C12): in-process servers started with the public
//! `spawn_worterbuch`, a real TCP sync port, requests through the `WbApi` handles.
//!
//! Input: header, then scenarios separated by {"op":"reset"}:
//!   {"op":"req", "r": <request of the core alphabet>}     on the leader
//!   {"op":"join","f":"f1"}                                 start a follower (role flags only)
//!   {"op":"sync"}                                          marker write on the leader, awaited on every follower
//!   {"op":"probe"}                                         read leader and followers back
//!   {"op":"fwrite","f":"f1"}                               offer a write to a follower
//!   {"op":"promote","f":"f1"}                              leader gone, follower stopped gracefully and
//!                                                          restarted as leader on its own data directory
//! Output: the trace records of Trace_Cluster.tla.

use crate::util::{Names, s, u};
use serde_json::{Map, Value, json};
use std::collections::BTreeMap;
use std::io::{BufRead, BufReader, BufWriter, Write};
use std::path::PathBuf;
use std::time::Duration;
use tokio::sync::oneshot;
use tosub::SubsystemHandle;
use uuid::Uuid;
use worterbuch::server::CloneableWbApi;
use worterbuch::{Args, Config, Endpoint, spawn_worterbuch};
use worterbuch_common::{Protocol, WbApi, error::WorterbuchError};

pub struct Node {
    pub api: CloneableWbApi,
    pub subsys: SubsystemHandle,
    pub done: tokio::task::JoinHandle<bool>,
    pub dir: PathBuf,
}

fn free_port() -> u16 {
    crate::util::private_port()
}

pub async fn start(cfg: Config, dir: PathBuf) -> Option<Node> {
    let (api_tx, api_rx) = oneshot::channel();
    let done = tokio::spawn(async move {
        tosub::build_root("wbverif")
            .catch_no_signals()
            .start(move |subsys| async move {
                let api = spawn_worterbuch(&subsys, cfg).await.map_err(|e| miette::miette!("{e}"))?;
                api_tx.send((api, subsys.clone())).ok();
                subsys.shutdown_requested().await;
                Ok::<(), miette::Error>(())
            })
            .await
            .is_ok()
    });
    let (api, subsys) = tokio::time::timeout(Duration::from_secs(20), api_rx).await.ok()?.ok()?;
    Some(Node { api, subsys, done, dir })
}

pub async fn stop(n: Node) {
    n.subsys.request_global_shutdown();
    let _ = tokio::time::timeout(Duration::from_secs(20), n.done).await;
}

async fn base(args: Args, dir: &PathBuf) -> Config {
    // exactly what the binary does with the command line role flags; only the places where
    // it listens and stores are set afterwards
    let mut cfg = Config::new(Some(args)).await.expect("config");
    cfg.ws_endpoint = None;
    cfg.tcp_endpoint = Some(Endpoint { tls: false, bind_addr: [127, 0, 0, 1].into(), port: 0 });
    cfg.tcp_disabled = true;
    cfg.unix_endpoint = None;
    cfg.extended_monitoring = false;
    cfg.data_dir = dir.to_string_lossy().to_string();
    cfg.persistence_interval = Duration::from_secs(3600);
    cfg
}

fn err(e: &WorterbuchError) -> Value {
    json!({"t": "err", "code": crate::core_drv::err_code(e)})
}

pub async fn probe(api: &CloneableWbApi, names: &Names) -> Value {
    let mut flat = vec![];
    let mut regs = vec![];
    if let Ok(kvs) = api.pget("#".to_owned()).await {
        for kv in kvs {
            let path = names.key_out(&kv.key);
            let segs: Vec<String> = path.as_array().map(|a| a.iter().map(|x| x.as_str().unwrap_or("").to_owned()).collect()).unwrap_or_default();
            if segs.first().map(|x| x == "$SYS").unwrap_or(false) {
                if segs.len() == 4 && segs[1] == "clients" && (segs[3] == "graveGoods" || segs[3] == "lastWill") {
                    regs.push(json!([segs[2], segs[3], names.val_out(&kv.value)]));
                }
                continue;
            }
            let n = api.cget(kv.key.clone()).await.map(|x| x.1).unwrap_or(0);
            flat.push(json!([path, names.val_out(&kv.value), n]));
        }
    }
    json!({"flat": flat, "regs": regs})
}

pub fn main_run(args: &[String]) -> i32 {
    if args.len() < 3 {
        eprintln!("usage: wbverif cluster-run <scenarios.ndjson> <trace.ndjson> <scratch-dir>");
        return 2;
    }
    let rt = tokio::runtime::Builder::new_multi_thread().worker_threads(4).enable_all().build().expect("runtime");
    let input = BufReader::new(std::fs::File::open(&args[0]).expect("open input"));
    let mut out = BufWriter::new(std::fs::File::create(&args[1]).expect("create output"));
    let root = PathBuf::from(&args[2]);
    std::fs::create_dir_all(&root).ok();
    rt.block_on(async move {
        let mut lines = input.lines();
        let hdr_line = lines.next().expect("header").expect("io");
        let hdr: Value = serde_json::from_str(&hdr_line).expect("json");
        writeln!(out, "{hdr_line}").ok();
        let meaning = hdr["meaning"].as_object().cloned().unwrap_or_default();
        let mut scen = 0usize;
        let mut names = Names::new(meaning.clone());
        let mut leader: Option<Node> = None;
        let mut sync_port = 0u16;
        let mut followers: BTreeMap<String, Node> = BTreeMap::new();
        let mut nmark = 0u64;
        let mut all: Vec<String> = lines.map(|l| l.expect("io")).collect();
        all.push("{\"op\":\"reset\"}".to_owned());
        let mut first = true;
        for line in all {
            if line.trim().is_empty() {
                continue;
            }
            let r: Value = serde_json::from_str(&line).expect("json");
            let op = s(&r, "op");
            if op == "reset" || first {
                // tear everything down, start a fresh leader
                for (_, f) in std::mem::take(&mut followers) {
                    let d = f.dir.clone();
                    stop(f).await;
                    let _ = std::fs::remove_dir_all(d);
                }
                if let Some(l) = leader.take() {
                    let d = l.dir.clone();
                    stop(l).await;
                    let _ = std::fs::remove_dir_all(d);
                }
                if op == "reset" && !first {
                    writeln!(out, "{}", json!({"op": "reset"})).ok();
                }
                if op == "reset" && line.contains("\"final\"") {
                    break;
                }
                scen += 1;
                names = Names::new(meaning.clone());
                sync_port = free_port();
                let dir = root.join(format!("l{}_{}", std::process::id(), scen));
                let _ = std::fs::remove_dir_all(&dir);
                std::fs::create_dir_all(&dir).ok();
                let cfg = base(Args { leader: true, follower: false, sync_port: Some(sync_port), leader_address: None, instance_name: None }, &dir).await;
                leader = start(cfg, dir).await;
                first = false;
                if op == "reset" {
                    continue;
                }
            }
            let Some(l) = leader.as_ref() else {
                writeln!(out, "{}", json!({"op": "error", "what": "no leader"})).ok();
                continue;
            };
            match op.as_str() {
                "req" => {
                    let q = &r["r"];
                    let rep = exec_api(&l.api, &mut names, q).await;
                    writeln!(out, "{}", json!({"op": "req", "r": q, "rep": rep})).ok();
                }
                "join" => {
                    let f = s(&r, "f");
                    let dir = root.join(format!("f{}_{}_{}", std::process::id(), scen, f));
                    let _ = std::fs::remove_dir_all(&dir);
                    std::fs::create_dir_all(&dir).ok();
                    let cfg = base(Args { leader: false, follower: true, sync_port: None, leader_address: Some(format!("127.0.0.1:{sync_port}")), instance_name: None }, &dir).await;
                    // the leader opens its sync port a moment after its API is up: a follower that is refused
                    // the connection terminates (the orchestrator would restart it) - wait for the port
                    for _ in 0..2500 {
                        if crate::sock_drv::tcp_listening(sync_port) {
                            break;
                        }
                        tokio::time::sleep(Duration::from_millis(2)).await;
                    }
                    if let Some(n) = start(cfg, dir).await {
                        // the join has happened once the follower serves its synced state: wait for $SYS/mode
                        for _ in 0..2000 {
                            if let Ok(v) = n.api.get("$SYS/mode".to_owned()).await {
                                if v == json!("FOLLOWER") && n.api.get("$SYS/store/mode".to_owned()).await.is_ok() {
                                    break;
                                }
                            }
                            tokio::time::sleep(Duration::from_millis(2)).await;
                        }
                        followers.insert(f.clone(), n);
                    }
                    writeln!(out, "{}", json!({"op": "join", "f": f})).ok();
                }
                "sync" => {
                    nmark += 1;
                    let val = format!("m{nmark}");
                    let rep = l.api.set("__m".to_owned(), json!(val), Uuid::nil()).await.map(|_| json!({"t": "ok"})).unwrap_or_else(|e| err(&e));
                    writeln!(out, "{}", json!({"op": "req", "r": {"op": "set", "key": ["__m"], "val": val, "c": "int"}, "rep": rep})).ok();
                    for (name, f) in &followers {
                        let mut ok = false;
                        for _ in 0..5000 {
                            if f.api.get("__m".to_owned()).await.ok() == Some(json!(val)) {
                                ok = true;
                                break;
                            }
                            tokio::time::sleep(Duration::from_millis(1)).await;
                        }
                        writeln!(out, "{}", json!({"op": "drain", "f": name, "reached": ok})).ok();
                    }
                }
                "probe" => {
                    let lp = probe(&l.api, &names).await;
                    let mut fp = Map::new();
                    for (name, f) in &followers {
                        fp.insert(name.clone(), probe(&f.api, &names).await);
                    }
                    writeln!(out, "{}", json!({"op": "probe", "leader": lp, "followers": fp})).ok();
                }
                "fwrite" => {
                    let f = s(&r, "f");
                    if let Some(n) = followers.get(&f) {
                        let rep = n.api.set("a".to_owned(), json!("x"), Uuid::from_u128(99)).await.map(|_| json!({"t": "ok"})).unwrap_or_else(|e| err(&e));
                        writeln!(out, "{}", json!({"op": "fwrite", "f": f, "rep": rep})).ok();
                    }
                }
                "promote" => {
                    let f = s(&r, "f");
                    if let (Some(l), Some(n)) = (leader.take(), followers.remove(&f)) {
                        let ldir = l.dir.clone();
                        stop(l).await; // the leader is gone
                        let _ = std::fs::remove_dir_all(ldir);
                        let dir = n.dir.clone();
                        stop(n).await; // the orchestrator stops the follower (graceful shutdown) ...
                        let port = free_port();
                        let cfg = base(Args { leader: true, follower: false, sync_port: Some(port), leader_address: None, instance_name: None }, &dir).await;
                        // ... and starts a leader on the same data directory
                        if let Some(nl) = start(cfg, dir).await {
                            let p = probe(&nl.api, &names).await;
                            writeln!(out, "{}", json!({"op": "promote", "f": f, "flat": p["flat"]})).ok();
                            sync_port = port;
                            leader = Some(nl);
                        } else {
                            writeln!(out, "{}", json!({"op": "promote", "f": f, "flat": [], "error": "new leader did not start"})).ok();
                        }
                    }
                }
                _ => {}
            }
        }
        out.flush().ok();
    });
    0
}


/// one request of the core alphabet through a `WbApi` handle
pub async fn exec_api(api: &CloneableWbApi, names: &mut Names, q: &Value) -> Value {
    let c = s(q, "c");
    match s(q, "op").as_str() {
                        "set" => {
                            let (k, v, id) = (names.key_in(&q["key"]), names.val_in(&s(q, "val")), names.id(&c));
                            api.set(k, v, id).await.map(|_| json!({"t": "ok"})).unwrap_or_else(|e| err(&e))
                        }
                        "cset" => {
                            let (k, v, id) = (names.key_in(&q["key"]), names.val_in(&s(q, "val")), names.id(&c));
                            api.cset(k, v, u(q, "ver"), id).await.map(|_| json!({"t": "ok"})).unwrap_or_else(|e| err(&e))
                        }
                        "delete" => {
                            let (k, id) = (names.key_in(&q["key"]), names.id(&c));
                            api.delete(k, id).await.map(|v| json!({"t": "val", "v": names.val_out(&v)})).unwrap_or_else(|e| err(&e))
                        }
                        "pdelete" => {
                            let (p, id) = (names.key_in(&q["pat"]), names.id(&c));
                            match api.pdelete(p, id).await {
                                // server-maintained information under $SYS (version, uptime, ...) is environment, not behaviour
                Ok(kvs) => json!({"t": "kvs", "kvs": kvs.iter()
                    .filter(|kv| !(kv.key.starts_with("$SYS/") && !kv.key.starts_with("$SYS/clients")))
                    .map(|kv| json!([names.key_out(&kv.key), names.val_out(&kv.value)])).collect::<Vec<_>>()}),
                                Err(e) => err(&e),
                            }
                        }
                        "connect" => {
                            let id = names.fresh(&c);
                            let proto = match s(q, "proto").as_str() {
                "WS" => Protocol::WS,
                "HTTP" => Protocol::HTTP,
                "UNIX" => Protocol::UNIX,
                _ => Protocol::TCP,
            };
            api.connected(id, None, proto).await.map(|_| json!({"t": "ok"})).unwrap_or_else(|e| err(&e))
                        }
                        "disconnect" => {
                            let id = names.id(&c);
                            api.disconnected(id, None).await.map(|_| json!({"t": "ok"})).unwrap_or_else(|e| err(&e))
                        }
                        "import" => {
                            let mut core = ImportBuilder { names };
                            let js = core.json(&q["tree"]);
                            api.import(js).await.map(|_| json!({"t": "ok"})).unwrap_or_else(|e| err(&e))
                        }
                        _ => json!({"t": "unknown"}),
                    }
}

struct ImportBuilder<'a> {
    names: &'a mut Names,
}

impl ImportBuilder<'_> {
    fn json(&mut self, tree: &Value) -> String {
        fn insert(names: &mut Names, node: &mut Map<String, Value>, path: &[Value], e: &Value) {
            if path.is_empty() {
                match e["k"].as_str().unwrap_or("none") {
                    "plain" => {
                        node.insert("v".into(), names.val_in(e["v"].as_str().unwrap_or("")));
                    }
                    "cas" => {
                        let v = names.val_in(e["v"].as_str().unwrap_or(""));
                        node.insert("v".into(), json!({"Cas": [v, e["n"].as_u64().unwrap_or(0)]}));
                    }
                    _ => {}
                }
                return;
            }
            let seg = names.seg_in(path[0].as_str().unwrap_or(""));
            let t = node.entry("t".to_owned()).or_insert_with(|| Value::Object(Map::new()));
            let child = t.as_object_mut().expect("t").entry(seg).or_insert_with(|| Value::Object(Map::new()));
            insert(names, child.as_object_mut().expect("node"), &path[1..], e);
        }
        let mut root = Map::new();
        if let Some(nodes) = tree.as_array() {
            for n in nodes {
                let p = n["p"].as_array().cloned().unwrap_or_default();
                insert(self.names, &mut root, &p, &n["e"]);
            }
        }
        json!({"data": Value::Object(root)}).to_string()
    }
}
