//! Client-library driver (C20).
//!
//! `client-run`: an in-process server with a unix socket endpoint and ONE connection of
//! `worterbuch_client`, whose handle is cloned to several tasks that issue calls of the
//! public API concurrently.  Every task keeps its own log (record = call + what the call
//! resolved with + logical invocation/return stamps); subscriptions' receivers are drained
//! into streams.  After every unsubscribe (all four variants) the harness asks the SERVER
//! (through its `WbApi` handle) to unsubscribe the same (client, transaction id): the
//! answer tells whether the server-side subscription still existed.
//! Output: the same trace format as `sock-run` (validated with Trace_Session).
//!
//! `buffer-run`: the send buffer on top of `local_client_wrapper` and a recording `WbApi`,
//! under tokio's paused clock (deterministic; time is the number of milliseconds since the
//! start of the scenario).  Output: observation lines for Trace_Buffer.

use crate::core_drv::base_config;
use crate::util::{Names, b, s, u};
use serde_json::{Map, Value, json};
use std::collections::{BTreeMap, HashMap};
use std::io::{BufRead, BufReader, BufWriter, Write};
use std::net::SocketAddr;
use std::path::PathBuf;
use std::sync::Arc;
use std::sync::atomic::{AtomicU64, Ordering};
use std::time::Duration;
use tokio::sync::{Barrier, Mutex, mpsc, oneshot};
use uuid::Uuid;
use worterbuch::{UnixEndpoint, spawn_worterbuch};
use worterbuch_client as wcl;
use worterbuch_common as wc;
use worterbuch_common::error::{ConnectionError, WorterbuchError, WorterbuchResult};
use worterbuch_common::{PStateEvent, WbApi};

struct Shared {
    clock: AtomicU64,
    names: Mutex<Names>,
    streams: Mutex<BTreeMap<u64, Vec<Value>>>,
    lsstreams: Mutex<BTreeMap<u64, Vec<Value>>>,
}

fn tick(sh: &Shared) -> u64 {
    sh.clock.fetch_add(1, Ordering::SeqCst) + 1
}

fn conn_err(e: &ConnectionError) -> Value {
    match e {
        ConnectionError::ServerResponse(e) => json!({"t": "err", "code": e.error_code.clone() as u8}),
        ConnectionError::WorterbuchError(we) => match we.as_ref() {
            WorterbuchError::ServerResponse(e) => json!({"t": "err", "code": e.error_code.clone() as u8}),
            other => json!({"t": "liberr", "what": format!("{other}")}),
        },
        other => json!({"t": "liberr", "what": format!("{other}")}),
    }
}

fn wb_err(e: &WorterbuchError) -> Value {
    let code = wc::ErrorCode::from(e) as u8;
    json!({"t": "err", "code": code})
}

fn key_opt(names: &mut Names, v: &Value) -> Option<String> {
    let a = v.as_array().cloned().unwrap_or_default();
    if a.is_empty() { None } else { Some(names.key_in(v)) }
}

fn kvs_out(names: &Names, kvs: &[wc::KeyValuePair]) -> Value {
    Value::Array(kvs.iter().map(|kv| json!([names.key_out(&kv.key), names.val_out(&kv.value)])).collect())
}

/// one API call of a task; returns the reply in the trace vocabulary (+ the transaction id the library chose)
async fn call(wb: &wcl::Worterbuch, sh: &Arc<Shared>, item: &Value, subs: &mut Vec<u64>, lss: &mut Vec<u64>, pubs: &mut Vec<u64>, last_cget: &mut u64) -> (Value, Option<u64>, Option<u64>) {
    let op = s(item, "op");
    let typed = b(item, "typed");
    let ff = b(item, "ff");
    macro_rules! key {
        ($f:expr) => {{
            let mut n = sh.names.lock().await;
            n.key_in(&item[$f])
        }};
    }
    macro_rules! val {
        () => {{
            let mut n = sh.names.lock().await;
            n.val_in(&s(item, "val"))
        }};
    }
    let ok = json!({"t": "ok"});
    if ff {
        // fire-and-forget variants (`*_async`): the call returns the transaction id once the message is queued,
        // the answer is not awaited; a round trip afterwards makes sure the request has been processed
        let mut ver = None;
        let r = match op.as_str() {
            "set" => if typed { wb.set_async(key!("key"), val!()).await } else { wb.set_generic_async(key!("key"), val!()).await },
            "cset" => {
                let v = if item.get("ver_from").is_some() { *last_cget } else { u(item, "ver") };
                ver = Some(v);
                if typed { wb.cset_async(key!("key"), &val!(), v).await } else { wb.cset_generic_async(key!("key"), val!(), v).await }
            }
            "publish" => if typed { wb.publish_async(key!("key"), &val!()).await } else { wb.publish_generic_async(key!("key"), val!()).await },
            "delete" => wb.delete_async(key!("key")).await,
            "pdelete" => wb.pdelete_async(key!("pat"), b(item, "quiet")).await,
            "lock" => wb.lock_async(key!("key")).await,
            "release" => wb.release_lock_async(key!("key")).await,
            "spub" => {
                if pubs.is_empty() {
                    return (json!({"t": "skip"}), None, None);
                }
                let tid = pubs[pubs.len() - 1 - (u(item, "ref") as usize % pubs.len())];
                return match wb.spub_generic_async(tid, val!()).await {
                    Ok(_) => {
                        let _ = wb.ls(Some("__sync".to_owned())).await;
                        (json!({"t": "async"}), Some(tid), None)
                    }
                    Err(e) => (conn_err(&e), Some(tid), None),
                };
            }
            _ => return (json!({"t": "unknown"}), None, None),
        };
        return match r {
            Ok(tid) => {
                let _ = wb.ls(Some("__sync".to_owned())).await;
                (json!({"t": "async"}), Some(tid), ver)
            }
            Err(e) => (conn_err(&e), None, ver),
        };
    }
    match op.as_str() {
        // publish streams: spub_init hands out the transaction id later spub calls refer to
        "spubinit" => match wb.spub_init(key!("key")).await {
            Ok(tid) => {
                pubs.push(tid);
                (ok, Some(tid), None)
            }
            Err(e) => (conn_err(&e), None, None),
        },
        "spub" => {
            if pubs.is_empty() {
                return (json!({"t": "skip"}), None, None);
            }
            let tid = pubs[pubs.len() - 1 - (u(item, "ref") as usize % pubs.len())];
            let r = if typed { wb.spub(tid, &val!()).await } else { wb.spub_generic(tid, val!()).await };
            (match r { Ok(()) => ok, Err(e) => conn_err(&e) }, Some(tid), None)
        }
        // the library's helper for the client's own $SYS/clients/<id>/clientName entry
        "set_name" => {
            let v = val!();
            let r = wb.set_client_name(v.as_str().unwrap_or("?")).await;
            (match r { Ok(()) => ok, Err(e) => conn_err(&e) }, None, None)
        }
        "get" => {
            let r = if typed { wb.get::<Value>(key!("key")).await } else { wb.get_generic(key!("key")).await };
            let n = sh.names.lock().await;
            (
                match r {
                    Ok(Some(v)) => json!({"t": "val", "v": n.val_out(&v)}),
                    Ok(None) => json!({"t": "err", "code": 5}),
                    Err(e) => conn_err(&e),
                },
                None,
                None,
            )
        }
        "cget" => {
            let r = if typed { wb.cget::<Value>(key!("key")).await } else { wb.cget_generic(key!("key")).await };
            let n = sh.names.lock().await;
            (
                match r {
                    Ok(Some((v, ver))) => {
                        *last_cget = ver;
                        json!({"t": "cval", "v": n.val_out(&v), "n": ver})
                    }
                    Ok(None) => {
                        *last_cget = 0;
                        json!({"t": "err", "code": 5})
                    }
                    Err(e) => conn_err(&e),
                },
                None,
                None,
            )
        }
        "pget" => {
            let r = if typed {
                wb.pget::<Value>(key!("pat")).await.map(|t| t.into_iter().map(|kv| wc::KeyValuePair { key: kv.key, value: kv.value }).collect::<Vec<_>>())
            } else {
                wb.pget_generic(key!("pat")).await
            };
            let n = sh.names.lock().await;
            (match r { Ok(kvs) => json!({"t": "kvs", "kvs": kvs_out(&n, &kvs)}), Err(e) => conn_err(&e) }, None, None)
        }
        "set" => {
            let r = if typed { wb.set(key!("key"), val!()).await } else { wb.set_generic(key!("key"), val!()).await };
            (match r { Ok(()) => ok, Err(e) => conn_err(&e) }, None, None)
        }
        "cset" => {
            let ver = if item.get("ver_from").is_some() { *last_cget } else { u(item, "ver") };
            let r = if typed { wb.cset(key!("key"), &val!(), ver).await } else { wb.cset_generic(key!("key"), val!(), ver).await };
            (match r { Ok(()) => ok, Err(e) => conn_err(&e) }, None, Some(ver))
        }
        "swap" => {
            // the library's compare-and-swap retry loop (update / swap -> try_update) with a transform that
            // ignores the old value: as a whole it is "write this value, whatever the version is now"
            let v = val!();
            let r = wb.swap::<Value, Value, _>(key!("key"), move |_old| v.clone()).await;
            (match r { Ok(()) => ok, Err(e) => conn_err(&e) }, None, None)
        }
        "publish" => {
            let r = if typed { wb.publish(key!("key"), &val!()).await } else { wb.publish_generic(key!("key"), val!()).await };
            (match r { Ok(()) => ok, Err(e) => conn_err(&e) }, None, None)
        }
        "delete" => {
            let r = if typed { wb.delete::<Value>(key!("key")).await } else { wb.delete_generic(key!("key")).await };
            let n = sh.names.lock().await;
            (
                match r {
                    Ok(Some(v)) => json!({"t": "val", "v": n.val_out(&v)}),
                    Ok(None) => json!({"t": "err", "code": 5}),
                    Err(e) => conn_err(&e),
                },
                None,
                None,
            )
        }
        "pdelete" => {
            let r = if typed {
                wb.pdelete::<Value>(key!("pat"), false).await.map(|t| t.into_iter().map(|kv| wc::KeyValuePair { key: kv.key, value: kv.value }).collect::<Vec<_>>())
            } else {
                wb.pdelete_generic(key!("pat"), false).await
            };
            let n = sh.names.lock().await;
            (match r { Ok(kvs) => json!({"t": "kvs", "kvs": kvs_out(&n, &kvs)}), Err(e) => conn_err(&e) }, None, None)
        }
        "ls" => {
            let parent = {
                let mut n = sh.names.lock().await;
                key_opt(&mut n, &item["parent"])
            };
            let r = wb.ls(parent).await;
            let n = sh.names.lock().await;
            (match r { Ok(l) => json!({"t": "list", "list": l.iter().map(|x| n.seg_out(x)).collect::<Vec<_>>()}), Err(e) => conn_err(&e) }, None, None)
        }
        "pls" => {
            let parent = {
                let mut n = sh.names.lock().await;
                key_opt(&mut n, &item["pat"])
            };
            let r = wb.pls(parent).await;
            let n = sh.names.lock().await;
            (match r { Ok(l) => json!({"t": "list", "list": l.iter().map(|x| n.seg_out(x)).collect::<Vec<_>>()}), Err(e) => conn_err(&e) }, None, None)
        }
        "lock" => {
            let r = wb.lock(key!("key")).await;
            (match r { Ok(()) => ok, Err(e) => conn_err(&e) }, None, None)
        }
        "release" => {
            let r = wb.release_lock(key!("key")).await;
            (match r { Ok(()) => ok, Err(e) => conn_err(&e) }, None, None)
        }
        "sub" => {
            // (typed: the library deserialises every event in a task of its own before handing it over)
            let r = if typed { wb.subscribe::<Value>(key!("key"), b(item, "unique"), b(item, "live")).await } else { wb.subscribe_generic(key!("key"), b(item, "unique"), b(item, "live")).await };
            match r {
                Ok((mut rx, tid)) => {
                    subs.push(tid);
                    sh.streams.lock().await.entry(tid).or_default();
                    let sh2 = sh.clone();
                    tokio::spawn(async move {
                        while let Some(v) = rx.recv().await {
                            let n = sh2.names.lock().await;
                            // the library hands a deleted value over as None: the value itself is not observable
                            let ev = match v {
                                Some(v) => json!({"t": "val", "kvs": [[Value::Null, n.val_out(&v)]]}),
                                None => json!({"t": "del", "kvs": [[Value::Null, "?"]], "nov": true}),
                            };
                            drop(n);
                            sh2.streams.lock().await.entry(tid).or_default().push(ev);
                        }
                    });
                    (ok, Some(tid), None)
                }
                Err(e) => (conn_err(&e), None, None),
            }
        }
        "psub" => {
            if typed {
                return match wb.psubscribe::<Value>(key!("pat"), b(item, "unique"), b(item, "live"), None).await {
                    Ok((mut rx, tid)) => {
                        subs.push(tid);
                        sh.streams.lock().await.entry(tid).or_default();
                        let sh2 = sh.clone();
                        tokio::spawn(async move {
                            while let Some(e) = rx.recv().await {
                                let n = sh2.names.lock().await;
                                let untyped = |k: Vec<wc::TypedKeyValuePair<Value>>| k.into_iter().map(|kv| wc::KeyValuePair { key: kv.key, value: kv.value }).collect::<Vec<_>>();
                                let ev = match e {
                                    wc::TypedPStateEvent::KeyValuePairs(k) => json!({"t": "val", "kvs": kvs_out(&n, &untyped(k))}),
                                    wc::TypedPStateEvent::Deleted(k) => json!({"t": "del", "kvs": kvs_out(&n, &untyped(k))}),
                                };
                                drop(n);
                                sh2.streams.lock().await.entry(tid).or_default().push(ev);
                            }
                        });
                        (ok, Some(tid), None)
                    }
                    Err(e) => (conn_err(&e), None, None),
                };
            }
            let r = wb.psubscribe_generic(key!("pat"), b(item, "unique"), b(item, "live"), None).await;
            match r {
                Ok((mut rx, tid)) => {
                    subs.push(tid);
                    sh.streams.lock().await.entry(tid).or_default();
                    let sh2 = sh.clone();
                    tokio::spawn(async move {
                        while let Some(e) = rx.recv().await {
                            let n = sh2.names.lock().await;
                            let ev = match e {
                                PStateEvent::KeyValuePairs(k) => json!({"t": "val", "kvs": kvs_out(&n, &k)}),
                                PStateEvent::Deleted(k) => json!({"t": "del", "kvs": kvs_out(&n, &k)}),
                            };
                            drop(n);
                            sh2.streams.lock().await.entry(tid).or_default().push(ev);
                        }
                    });
                    (ok, Some(tid), None)
                }
                Err(e) => (conn_err(&e), None, None),
            }
        }
        // fire-and-forget subscriptions: the call returns the transaction id, nothing is awaited and no
        // receiver exists; a round trip afterwards makes sure the request has been processed
        "sub_async" | "psub_async" | "subls_async" => {
            let r = match op.as_str() {
                "sub_async" => wb.subscribe_async(key!("key"), b(item, "unique"), b(item, "live")).await,
                "psub_async" => wb.psubscribe_async(key!("pat"), b(item, "unique"), b(item, "live"), None).await,
                _ => {
                    let parent = {
                        let mut n = sh.names.lock().await;
                        key_opt(&mut n, &item["parent"])
                    };
                    wb.subscribe_ls_async(parent).await
                }
            };
            match r {
                Ok(tid) => {
                    if op == "subls_async" { lss.push(tid) } else { subs.push(tid) }
                    let _ = wb.ls(Some("__sync".to_owned())).await;
                    (json!({"t": "async"}), Some(tid), None)
                }
                Err(e) => (conn_err(&e), None, None),
            }
        }
        "subls" => {
            let parent = {
                let mut n = sh.names.lock().await;
                key_opt(&mut n, &item["parent"])
            };
            match wb.subscribe_ls(parent).await {
                Ok((mut rx, tid)) => {
                    lss.push(tid);
                    let sh2 = sh.clone();
                    tokio::spawn(async move {
                        while let Some(l) = rx.recv().await {
                            let n = sh2.names.lock().await;
                            let ev = json!(l.iter().map(|x| n.seg_out(x)).collect::<Vec<_>>());
                            drop(n);
                            sh2.lsstreams.lock().await.entry(tid).or_default().push(ev);
                        }
                    });
                    (ok, Some(tid), None)
                }
                Err(e) => (conn_err(&e), None, None),
            }
        }
        _ => (json!({"t": "unknown"}), None, None),
    }
}

async fn run_task(
    name: String,
    items: Vec<Value>,
    wb: wcl::Worterbuch,
    api: worterbuch::server::CloneableWbApi,
    cid: Uuid,
    sh: Arc<Shared>,
    barriers: Arc<HashMap<u64, Arc<Barrier>>>,
) -> (String, Vec<Value>) {
    let mut log: Vec<Value> = vec![];
    let mut subs: Vec<u64> = vec![];
    let mut lss: Vec<u64> = vec![];
    let mut pubs: Vec<u64> = vec![];
    let mut last_cget = 0u64;
    for item in items {
        let op = s(&item, "op");
        if op == "barrier" {
            if let Some(bar) = barriers.get(&u(&item, "n")) {
                bar.wait().await;
            }
            continue;
        }
        if op == "yield" {
            tokio::task::yield_now().await;
            continue;
        }
        let mut rec = item.clone();
        rec.as_object_mut().map(|o| o.remove("typed"));
        if matches!(op.as_str(), "unsub" | "unsub_async" | "unsubls" | "unsubls_async") {
            // which subscription: the `ref`-th one this task made (counted from the end)
            let pool = if op.starts_with("unsubls") { &lss } else { &subs };
            if pool.is_empty() {
                continue;
            }
            let tid = pool[pool.len() - 1 - (u(&item, "ref") as usize % pool.len())];
            rec["tid"] = json!(tid);
            rec["inv"] = json!(tick(&sh));
            let rep = match op.as_str() {
                "unsub" => wb.unsubscribe(tid).await.map(|_| json!({"t": "ok"})).unwrap_or_else(|e| conn_err(&e)),
                "unsubls" => wb.unsubscribe_ls(tid).await.map(|_| json!({"t": "ok"})).unwrap_or_else(|e| conn_err(&e)),
                "unsub_async" => wb.unsubscribe_async(tid).await.map(|_| json!({"t": "async"})).unwrap_or_else(|e| conn_err(&e)),
                _ => wb.unsubscribe_ls_async(tid).await.map(|_| json!({"t": "async"})).unwrap_or_else(|e| conn_err(&e)),
            };
            let is_async = rep["t"] == "async";
            rec["rep"] = rep;
            if is_async {
                // a fire-and-forget call has no completion of its own: it is in effect once a later
                // round trip on the same connection has returned
                let _ = wb.ls(Some("__sync".to_owned())).await;
            }
            rec["ret"] = json!(tick(&sh));
            log.push(rec);
            // ask the server: does the subscription still exist?
            let probe_op = if op.starts_with("unsubls") { "unsubls" } else { "unsub" };
            let inv = tick(&sh);
            let r = if probe_op == "unsub" { api.unsubscribe(cid, tid).await } else { api.unsubscribe_ls(cid, tid).await };
            let rep = r.map(|_| json!({"t": "ok"})).unwrap_or_else(|e| wb_err(&e));
            log.push(json!({"op": probe_op, "tid": tid, "probe": true, "rep": rep, "inv": inv, "ret": tick(&sh)}));
            continue;
        }
        rec["inv"] = json!(tick(&sh));
        let (rep, tid, ver) = call(&wb, &sh, &item, &mut subs, &mut lss, &mut pubs, &mut last_cget).await;
        if rep["t"] == "skip" {
            continue;
        }
        rec.as_object_mut().map(|o| {
            o.remove("ff");
            o.remove("ref");
        });
        if op == "set_name" {
            // on the wire: a set of the client's own clientName key
            rec["op"] = json!("set");
            rec["key"] = json!(["$SYS", "clients", "c1", "clientName"]);
        }
        rec["ret"] = json!(tick(&sh));
        rec["rep"] = rep;
        rec["tid"] = json!(tid.unwrap_or(0));
        if let Some(v) = ver {
            rec["ver"] = json!(v);
        }
        log.push(rec);
    }
    (name, log)
}

pub fn main_run(args: &[String]) -> i32 {
    if args.len() < 3 {
        eprintln!("usage: wbverif client-run <scenarios.ndjson> <trace.ndjson> <scratch-dir>");
        return 2;
    }
    let rt = tokio::runtime::Builder::new_multi_thread().worker_threads(4).enable_all().build().expect("runtime");
    let input = BufReader::new(std::fs::File::open(&args[0]).expect("open input"));
    let mut out = BufWriter::new(std::fs::File::create(&args[1]).expect("create output"));
    let scratch = PathBuf::from(&args[2]);
    std::fs::create_dir_all(&scratch).ok();
    let mut lines = input.lines();
    let hdr_line = lines.next().expect("header").expect("io");
    let hdr: Value = serde_json::from_str(&hdr_line).expect("json");
    writeln!(out, "{hdr_line}").ok();
    let meaning = hdr["meaning"].as_object().cloned().unwrap_or_default();
    let mut n = 0;
    for line in lines {
        let line = line.expect("io");
        if line.trim().is_empty() {
            continue;
        }
        let sc: Value = serde_json::from_str(&line).expect("json");
        n += 1;
        let sock = scratch.join(format!("wbc{}_{}.sock", std::process::id(), n));
        let res = rt.block_on(run_scenario(sc, sock.clone(), meaning.clone()));
        let _ = std::fs::remove_file(&sock);
        writeln!(out, "{res}").ok();
    }
    out.flush().ok();
    0
}

async fn run_scenario(sc: Value, sock: PathBuf, meaning: Map<String, Value>) -> Value {
    let mut cfg = base_config().await;
    cfg.unix_endpoint = Some(UnixEndpoint { path: sock.clone() });
    cfg.unix_disabled = false;
    cfg.extended_monitoring = b(&sc, "extmon");
    // "transport": "tcp" | "ws": the library connects over the server's TCP / WebSocket endpoint
    let transport = sc["transport"].as_str().unwrap_or("unix").to_owned();
    let port = crate::util::private_port();
    if transport == "tcp" {
        cfg.tcp_endpoint = Some(worterbuch::Endpoint { tls: false, bind_addr: [127, 0, 0, 1].into(), port });
        cfg.tcp_disabled = false;
    } else if transport == "ws" {
        cfg.ws_endpoint = Some(worterbuch::WsEndpoint {
            endpoint: worterbuch::Endpoint { tls: false, bind_addr: [127, 0, 0, 1].into(), port },
            public_addr: "localhost".to_owned(),
        });
    }
    let (api_tx, api_rx) = oneshot::channel();
    let server = tokio::spawn(async move {
        let r = tosub::build_root("wbverif")
            .catch_no_signals()
            .start(move |subsys| async move {
                let api = spawn_worterbuch(&subsys, cfg).await.map_err(|e| miette::miette!("{e}"))?;
                api_tx.send((api, subsys.clone())).ok();
                subsys.shutdown_requested().await;
                Ok::<(), miette::Error>(())
            })
            .await;
        r.is_ok()
    });
    let Ok((api, subsys)) = api_rx.await else {
        return json!({"error": "server did not start"});
    };
    for _ in 0..500 {
        if sock.exists() && (transport == "unix" || crate::sock_drv::tcp_listening(port)) {
            break;
        }
        tokio::time::sleep(Duration::from_millis(5)).await;
    }
    let sh = Arc::new(Shared {
        clock: AtomicU64::new(0),
        names: Mutex::new(Names::new(meaning)),
        streams: Mutex::new(BTreeMap::new()),
        lsstreams: Mutex::new(BTreeMap::new()),
    });
    let mut ccfg = wcl::config::Config::new();
    ccfg.proto = transport.clone();
    ccfg.socket_path = Some(sock.clone());
    let open_inv = tick(&sh);
    let dummy: SocketAddr = format!("127.0.0.1:{}", if transport == "unix" { 1 } else { port }).parse().expect("addr");
    // (the endpoint may need a moment to come up: a refused connection attempt is not a session)
    let mut attempt = 0;
    let (wb, _on_disco) = loop {
        match wcl::try_connect(ccfg.clone(), dummy).await {
            Ok(x) => break x,
            Err(e) => {
                attempt += 1;
                if attempt > 250 {
                    subsys.request_global_shutdown();
                    return json!({"error": format!("client could not connect: {e}")});
                }
                tokio::time::sleep(Duration::from_millis(20)).await;
            }
        }
    };
    let cid_str = wb.client_id().to_owned();
    let cid = Uuid::parse_str(&cid_str).unwrap_or(Uuid::nil());
    sh.names.lock().await.bind("c1", &cid_str);
    let open_ret = tick(&sh);

    let tasks = sc["tasks"].as_object().cloned().unwrap_or_default();
    let mut counts: HashMap<u64, usize> = HashMap::new();
    for (_, items) in &tasks {
        let mut seen = std::collections::HashSet::new();
        for it in items.as_array().cloned().unwrap_or_default() {
            if s(&it, "op") == "barrier" && seen.insert(u(&it, "n")) {
                *counts.entry(u(&it, "n")).or_default() += 1;
            }
        }
    }
    let barriers: Arc<HashMap<u64, Arc<Barrier>>> = Arc::new(counts.into_iter().map(|(k, c)| (k, Arc::new(Barrier::new(c)))).collect());
    let mut handles = vec![];
    for (name, items) in tasks {
        let items = items.as_array().cloned().unwrap_or_default();
        handles.push(tokio::spawn(run_task(name, items, wb.clone(), api.clone(), cid, sh.clone(), barriers.clone())));
    }
    let mut sess_out = Map::new();
    sess_out.insert(
        "conn".to_owned(),
        json!({"cid": "c1", "welcome": true, "closed": false, "open_inv": open_inv, "open_ret": open_ret, "log": [], "switched": 1}),
    );
    let mut live: Vec<(u64, Vec<String>)> = vec![];
    for h in handles {
        if let Ok((name, log)) = h.await {
            // live subscriptions of this task (for the marker flush)
            let mut mine: BTreeMap<u64, Vec<String>> = BTreeMap::new();
            for r in &log {
                let okr = r["rep"]["t"] == "ok";
                let pat = |f: &str| r[f].as_array().map(|a| a.iter().map(|x| x.as_str().unwrap_or("").to_owned()).collect::<Vec<_>>()).unwrap_or_default();
                match s(r, "op").as_str() {
                    "sub" if okr => {
                        mine.insert(u(r, "tid"), pat("key"));
                    }
                    "psub" if okr => {
                        mine.insert(u(r, "tid"), pat("pat"));
                    }
                    "unsub" | "unsub_async" => {
                        mine.remove(&u(r, "tid"));
                    }
                    _ => {}
                }
            }
            live.extend(mine);
            sess_out.insert(name, json!({"cid": "c1", "welcome": false, "closed": false, "log": log}));
        }
    }
    // quiescence: a marker publish through the library on a key each live subscription matches,
    // awaited on the subscription's receiver
    let mut exact = vec![];
    let mut adm_log = vec![];
    let mut markers: Vec<(Vec<String>, String)> = vec![];
    let mut flushed: Vec<u64> = vec![];
    for (k, (tid, pat)) in live.iter().enumerate() {
        let mut legal = true;
        let key: Vec<String> = pat
            .iter()
            .enumerate()
            .map(|(j, sgm)| {
                if sgm == "#" && j != pat.len() - 1 {
                    legal = false;
                }
                if sgm == "?" || sgm == "#" { "__m".to_owned() } else { sgm.clone() }
            })
            .collect();
        if !legal || key.first().map(|x| x == "$SYS").unwrap_or(false) || key.iter().any(|x| x.is_empty()) {
            continue;
        }
        let val = format!("__marker{k}");
        let inv = tick(&sh);
        let r = wb.publish_generic(key.join("/"), json!(val)).await;
        let rep = match r { Ok(()) => json!({"t": "ok"}), Err(e) => conn_err(&e) };
        adm_log.push(json!({"op": "publish", "key": key, "val": val, "tid": 0, "marker": true, "rep": rep, "inv": inv, "ret": tick(&sh)}));
        markers.push((key, val));
        flushed.push(*tid);
    }
    // a stream is complete once it shows every marker its pattern matches (not only its own one)
    for (tid, pat) in live.iter().filter(|(t, _)| flushed.contains(t)) {
        let mut all = true;
        for (key, val) in &markers {
            let (must, ms) = match crate::util::marker_matches(pat, key) {
                Some(true) => (true, 5000),
                Some(false) => continue,
                None => (false, 200),
            };
            let mut seen = false;
            let deadline = tokio::time::Instant::now() + Duration::from_millis(ms);
            loop {
                {
                    let g = sh.streams.lock().await;
                    if g.get(tid).map(|evs| evs.iter().any(|e| e["kvs"].as_array().map(|a| a.iter().any(|kv| kv[1] == val.as_str())).unwrap_or(false))).unwrap_or(false) {
                        seen = true;
                        break;
                    }
                }
                if tokio::time::Instant::now() >= deadline {
                    break;
                }
                tokio::time::sleep(Duration::from_millis(2)).await;
            }
            if must && !seen {
                all = false;
            }
        }
        if all {
            exact.push(format!("c1:{tid}"));
        }
    }
    sess_out.insert("tadm".to_owned(), json!({"cid": "c1", "welcome": false, "closed": false, "log": adm_log}));
    let mut streams = Map::new();
    for (tid, evs) in sh.streams.lock().await.iter() {
        streams.insert(format!("c1:{tid}"), Value::Array(evs.clone()));
    }
    let mut lsstreams = Map::new();
    for (tid, evs) in sh.lsstreams.lock().await.iter() {
        lsstreams.insert(format!("c1:{tid}"), Value::Array(evs.clone()));
    }
    drop(wb.close().await);
    subsys.request_global_shutdown();
    let clean = tokio::time::timeout(Duration::from_secs(10), server).await.map(|r| r.unwrap_or(false)).unwrap_or(false);
    let res = json!({"sessions": sess_out, "streams": streams, "lsstreams": lsstreams, "extra": [], "exact": exact,
           "auth_required": false, "server_clean_exit": clean, "extmon": b(&sc, "extmon"),
           "proto": match transport.as_str() { "tcp" => "TCP", "ws" => "WS", _ => "UNIX" }});
    let names = sh.names.lock().await;
    names.translate(&res)
}

// ------------------------------------------------------------------------------------------------
// send buffer

#[derive(Clone)]
struct RecApi {
    log: Arc<std::sync::Mutex<Vec<Value>>>,
    start: tokio::time::Instant,
}

impl RecApi {
    fn rec(&self, kind: &str, key: &str, value: &Value) {
        let at = self.start.elapsed().as_millis() as u64;
        let v = value.as_str().map(|x| x.to_owned()).unwrap_or_else(|| value.to_string());
        if let Ok(mut g) = self.log.lock() {
            g.push(json!({"e": "sent", "kind": kind, "k": key, "v": v, "at": at}));
        }
    }
}

fn not_impl<T>() -> WorterbuchResult<T> {
    Err(WorterbuchError::NotImplemented)
}

impl WbApi for RecApi {
    fn supported_protocol_versions(&self) -> Vec<wc::ProtocolVersion> {
        vec![wc::ProtocolVersion::new(1, 1)]
    }
    fn version(&self) -> &str {
        "verif"
    }
    async fn get(&self, _key: wc::Key) -> WorterbuchResult<Value> {
        not_impl()
    }
    async fn cget(&self, _key: wc::Key) -> WorterbuchResult<(Value, wc::CasVersion)> {
        not_impl()
    }
    async fn pget(&self, _pattern: wc::RequestPattern) -> WorterbuchResult<wc::KeyValuePairs> {
        not_impl()
    }
    async fn set(&self, key: wc::Key, value: Value, _client_id: wc::ClientId) -> WorterbuchResult<()> {
        self.rec("set", &key, &value);
        Ok(())
    }
    async fn cset(&self, key: wc::Key, value: Value, _version: wc::CasVersion, _client_id: wc::ClientId) -> WorterbuchResult<()> {
        self.rec("cset", &key, &value);
        Ok(())
    }
    async fn lock(&self, _key: wc::Key, _client_id: wc::ClientId) -> WorterbuchResult<()> {
        not_impl()
    }
    async fn acquire_lock(&self, _key: wc::Key, _client_id: wc::ClientId) -> WorterbuchResult<oneshot::Receiver<()>> {
        not_impl()
    }
    async fn release_lock(&self, _key: wc::Key, _client_id: wc::ClientId) -> WorterbuchResult<()> {
        not_impl()
    }
    async fn spub_init(&self, _transaction_id: wc::TransactionId, _key: wc::Key, _client_id: wc::ClientId) -> WorterbuchResult<()> {
        not_impl()
    }
    async fn spub(&self, _transaction_id: wc::TransactionId, value: Value, _client_id: wc::ClientId) -> WorterbuchResult<()> {
        self.rec("spub", "", &value);
        Ok(())
    }
    async fn publish(&self, key: wc::Key, value: Value) -> WorterbuchResult<()> {
        self.rec("pub", &key, &value);
        Ok(())
    }
    async fn ls(&self, _parent: Option<wc::Key>) -> WorterbuchResult<Vec<wc::RegularKeySegment>> {
        not_impl()
    }
    async fn pls(&self, _parent: Option<wc::RequestPattern>) -> WorterbuchResult<Vec<wc::RegularKeySegment>> {
        not_impl()
    }
    async fn subscribe(
        &self,
        _client_id: wc::ClientId,
        _transaction_id: wc::TransactionId,
        _key: wc::Key,
        _unique: bool,
        _live_only: bool,
    ) -> WorterbuchResult<(mpsc::Receiver<wc::StateEvent>, wc::SubscriptionId)> {
        not_impl()
    }
    async fn psubscribe(
        &self,
        _client_id: wc::ClientId,
        _transaction_id: wc::TransactionId,
        _pattern: wc::RequestPattern,
        _unique: bool,
        _live_only: bool,
    ) -> WorterbuchResult<(mpsc::Receiver<PStateEvent>, wc::SubscriptionId)> {
        not_impl()
    }
    async fn subscribe_ls(
        &self,
        _client_id: wc::ClientId,
        _transaction_id: wc::TransactionId,
        _parent: Option<wc::Key>,
    ) -> WorterbuchResult<(mpsc::Receiver<Vec<wc::RegularKeySegment>>, wc::SubscriptionId)> {
        not_impl()
    }
    async fn unsubscribe(&self, _client_id: wc::ClientId, _transaction_id: wc::TransactionId) -> WorterbuchResult<()> {
        not_impl()
    }
    async fn unsubscribe_ls(&self, _client_id: wc::ClientId, _transaction_id: wc::TransactionId) -> WorterbuchResult<()> {
        not_impl()
    }
    async fn delete(&self, key: wc::Key, _client_id: wc::ClientId) -> WorterbuchResult<Value> {
        self.rec("delete", &key, &Value::Null);
        not_impl()
    }
    async fn pdelete(&self, pattern: wc::RequestPattern, _client_id: wc::ClientId) -> WorterbuchResult<wc::KeyValuePairs> {
        self.rec("pdelete", &pattern, &Value::Null);
        not_impl()
    }
    async fn connected(&self, _client_id: wc::ClientId, _remote_addr: Option<SocketAddr>, _protocol: wc::Protocol) -> WorterbuchResult<()> {
        Ok(())
    }
    async fn protocol_switched(&self, _client_id: wc::ClientId, _protocol: wc::ProtocolMajorVersion) -> WorterbuchResult<()> {
        Ok(())
    }
    async fn disconnected(&self, _client_id: wc::ClientId, _remote_addr: Option<SocketAddr>) -> WorterbuchResult<()> {
        Ok(())
    }
    async fn export(&self, _span: tracing::Span) -> WorterbuchResult<(Value, wc::GraveGoods, wc::LastWill)> {
        not_impl()
    }
    async fn import(&self, _json: String) -> WorterbuchResult<Vec<(String, (wc::ValueEntry, bool))>> {
        not_impl()
    }
    async fn entries(&self) -> WorterbuchResult<usize> {
        not_impl()
    }
}

pub fn buffer_run(args: &[String]) -> i32 {
    if args.len() < 2 {
        eprintln!("usage: wbverif buffer-run <scenarios.ndjson> <trace.ndjson>");
        return 2;
    }
    let input = BufReader::new(std::fs::File::open(&args[0]).expect("open input"));
    let mut out = BufWriter::new(std::fs::File::create(&args[1]).expect("create output"));
    let mut lines = input.lines();
    let hdr_line = lines.next().expect("header").expect("io");
    writeln!(out, "{hdr_line}").ok();
    for line in lines {
        let line = line.expect("io");
        if line.trim().is_empty() {
            continue;
        }
        let sc: Value = serde_json::from_str(&line).expect("json");
        // a fresh single-threaded runtime with a paused clock per scenario
        let rt = tokio::runtime::Builder::new_current_thread().enable_all().start_paused(true).build().expect("runtime");
        let evs = rt.block_on(buffer_scenario(sc));
        writeln!(out, "{}", json!({"e": "reset"})).ok();
        for e in evs {
            writeln!(out, "{e}").ok();
        }
        drop(rt);
    }
    out.flush().ok();
    0
}

async fn buffer_scenario(sc: Value) -> Vec<Value> {
    let start = tokio::time::Instant::now();
    let log = Arc::new(std::sync::Mutex::new(Vec::<Value>::new()));
    let api = RecApi { log: log.clone(), start };
    let wb = wcl::local_client_wrapper(api);
    // the connection is up once a round trip has returned
    let _ = wb.ls(None).await;
    let delay = sc["delay"].as_u64().unwrap_or(10);
    let buf = wb.send_buffer(Duration::from_millis(delay)).await;
    let tasks = sc["tasks"].as_object().cloned().unwrap_or_default();
    let mut handles = vec![];
    for (_name, items) in tasks {
        let items = items.as_array().cloned().unwrap_or_default();
        let buf = buf.clone();
        let log = log.clone();
        handles.push(tokio::spawn(async move {
            for it in items {
                match s(&it, "op").as_str() {
                    "sleep" => tokio::time::sleep(Duration::from_millis(u(&it, "ms"))).await,
                    "yield" => tokio::task::yield_now().await,
                    op @ ("set_later" | "publish_later") => {
                        let (k, v) = (s(&it, "k"), s(&it, "v"));
                        let r = if op == "set_later" { buf.set_later(k.clone(), json!(v)).await } else { buf.publish_later(k.clone(), json!(v)).await };
                        let at = start.elapsed().as_millis() as u64;
                        if let Ok(mut g) = log.lock() {
                            if r.is_ok() {
                                g.push(json!({"e": "hand", "kind": if op == "set_later" { "set" } else { "pub" }, "k": k, "v": v, "at": at}));
                            } else {
                                g.push(json!({"e": "hand-failed", "k": k, "v": v, "at": at}));
                            }
                        }
                    }
                    _ => {}
                }
            }
        }));
    }
    for h in handles {
        let _ = h.await;
    }
    // nothing happens for three delays: whatever the buffer still owes would have left
    tokio::time::sleep(Duration::from_millis(3 * delay + 1)).await;
    let at = start.elapsed().as_millis() as u64;
    let mut evs = log.lock().map(|g| g.clone()).unwrap_or_default();
    evs.push(json!({"e": "quiesce", "at": at}));
    evs
}
