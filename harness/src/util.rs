use serde_json::{Map, Value, json};
use std::collections::HashMap;
use uuid::Uuid;

/// Bidirectional mapping between model client names ("c1", "int") and the
/// UUIDs the implementation uses, and between model value tokens and JSON.
pub struct Names {
    cur: HashMap<String, Uuid>,
    rev: HashMap<String, String>,
    next: u128,
    pub meaning: Map<String, Value>,
}

impl Names {
    pub fn new(meaning: Map<String, Value>) -> Self {
        let mut n = Names {
            cur: HashMap::new(),
            rev: HashMap::new(),
            next: 1,
            meaning,
        };
        n.rev.insert(Uuid::nil().to_string(), "int".to_owned());
        n
    }

    /// a new connection of client `name` gets a fresh id, as the servers do
    pub fn fresh(&mut self, name: &str) -> Uuid {
        let id = Uuid::from_u128(0xC1E0_0000_0000_0000_0000_0000_0000_0000u128 + self.next);
        self.next += 1;
        self.cur.insert(name.to_owned(), id);
        self.rev.insert(id.to_string(), name.to_owned());
        id
    }

    /// the server chose the id of this connection (socket drivers)
    pub fn bind(&mut self, name: &str, id: &str) {
        if let Ok(u) = Uuid::parse_str(id) {
            self.cur.insert(name.to_owned(), u);
            self.rev.insert(u.to_string(), name.to_owned());
        }
    }

    /// replace every string that is the id of a known connection by its model name
    /// (events can mention a connection before the harness has learnt its id)
    pub fn translate(&self, v: &Value) -> Value {
        match v {
            Value::String(x) => Value::String(self.seg_out(x)),
            Value::Array(a) => Value::Array(a.iter().map(|x| self.translate(x)).collect()),
            Value::Object(o) => Value::Object(o.iter().map(|(k, x)| (k.clone(), self.translate(x))).collect()),
            other => other.clone(),
        }
    }

    pub fn id(&mut self, name: &str) -> Uuid {
        if name == "int" {
            return Uuid::nil();
        }
        if let Some(id) = self.cur.get(name) {
            return *id;
        }
        self.fresh(name)
    }

    pub fn seg_out(&self, seg: &str) -> String {
        self.rev.get(seg).cloned().unwrap_or_else(|| seg.to_owned())
    }

    pub fn seg_in(&mut self, seg: &str) -> String {
        if seg == "int" {
            return Uuid::nil().to_string();
        }
        if self.cur.contains_key(seg) {
            return self.cur[seg].to_string();
        }
        if is_client_name(seg) {
            return self.id(seg).to_string();
        }
        seg.to_owned()
    }

    /// model path (array of segments) -> key string of the implementation
    pub fn key_in(&mut self, path: &Value) -> String {
        let segs: Vec<String> = path
            .as_array()
            .map(|a| a.iter().map(|s| self.seg_in(s.as_str().unwrap_or(""))).collect())
            .unwrap_or_default();
        segs.join("/")
    }

    /// key string of the implementation -> model path
    pub fn key_out(&self, key: &str) -> Value {
        Value::Array(key.split('/').map(|s| json!(self.seg_out(s))).collect())
    }

    /// model value token -> JSON value handed to the implementation
    pub fn val_in(&mut self, tok: &str) -> Value {
        if let Some(c) = self.meaning.get(tok).and_then(|m| m.get("cas")).cloned() {
            // a plain value shaped like the file format's CAS tag
            let v = self.val_in(c["v"].as_str().unwrap_or(""));
            return json!({"Cas": [v, c["n"].as_u64().unwrap_or(0)]});
        }
        if let Some(m) = self.meaning.get(tok).cloned() {
            let gg = m.get("gg").and_then(|g| g.as_array()).cloned().unwrap_or_default();
            let lw = m.get("lw").and_then(|g| g.as_array()).cloned().unwrap_or_default();
            let v = if !lw.is_empty() {
                Value::Array(
                    lw.iter()
                        .map(|kv| {
                            let k = self.key_in(&kv["k"]);
                            let v = self.val_in(kv["v"].as_str().unwrap_or(""));
                            json!({"key": k, "value": v})
                        })
                        .collect(),
                )
            } else {
                Value::Array(gg.iter().map(|p| json!(self.key_in(p))).collect())
            };
            return v;
        }
        if let Some(rest) = tok.strip_prefix("j:") {
            if let Ok(v) = serde_json::from_str::<Value>(rest) {
                return v;
            }
        }
        Value::String(tok.to_owned())
    }

    /// JSON value delivered by the implementation -> model value token
    pub fn val_out(&self, v: &Value) -> String {
        match v {
            // the time of a connection ($SYS/clients/<id>/connectedSince, extended monitoring) is environment
            Value::String(s) if s.len() >= 20 && s.as_bytes()[4] == b'-' && s.as_bytes()[10] == b'T' && s[..4].chars().all(|c| c.is_ascii_digit()) => "ts".to_owned(),
            // the peer address of a TCP session ($SYS/clients/<id>/address) is environment
            Value::String(s) if s.starts_with("127.0.0.1:") && s[10..].chars().all(|c| c.is_ascii_digit()) => "addr".to_owned(),
            Value::String(s) => self.seg_out(s),
            Value::Number(n) => format!("j:{n}"),
            Value::Array(items) if !items.is_empty() => {
                // structural reverse lookup in the meaning table
                let as_gg: Option<Vec<Value>> =
                    items.iter().map(|i| i.as_str().map(|k| self.key_out(k))).collect();
                let as_lw: Option<Vec<Value>> = items
                    .iter()
                    .map(|i| match (i.get("key").and_then(|k| k.as_str()), i.get("value")) {
                        (Some(k), Some(v)) if i.as_object().map(|o| o.len()) == Some(2) => {
                            Some(json!({"k": self.key_out(k), "v": self.val_out(v)}))
                        }
                        _ => None,
                    })
                    .collect();
                for (tok, m) in &self.meaning {
                    let gg = m.get("gg").and_then(|g| g.as_array()).cloned().unwrap_or_default();
                    let lw = m.get("lw").and_then(|g| g.as_array()).cloned().unwrap_or_default();
                    if let Some(g) = &as_gg {
                        if lw.is_empty() && &gg == g {
                            return tok.clone();
                        }
                    }
                    if let Some(l) = &as_lw {
                        if gg.is_empty() && &lw == l {
                            return tok.clone();
                        }
                    }
                }
                format!("j:{}", v)
            }
            Value::Object(o) if o.len() == 1 && o.get("Cas").and_then(|c| c.as_array()).map(|a| a.len()) == Some(2) => {
                let inner = self.val_out(&o["Cas"][0]);
                let n = o["Cas"][1].as_u64();
                for (tok, m) in &self.meaning {
                    if let Some(c) = m.get("cas") {
                        if c["v"].as_str() == Some(inner.as_str()) && c["n"].as_u64() == n {
                            return tok.clone();
                        }
                    }
                }
                format!("j:{v}")
            }
            other => format!("j:{other}"),
        }
    }
}

/// CAS versions are u64, the specification's integers are 32 bit: the top of the u64 range is
/// mapped onto the top of the model's range (u64::MAX <-> 2_000_000_000 = VerTop of Core.tla).
pub const VER_TOP: u64 = 2_000_000_000;
pub fn ver_in(n: u64) -> u64 {
    if n > VER_TOP - 1_000 && n <= VER_TOP { u64::MAX - (VER_TOP - n) } else { n }
}
pub fn ver_out(n: u64) -> u64 {
    if n >= u64::MAX - 1_000 { VER_TOP - (u64::MAX - n) } else { n }
}

/// A TCP port for an in-process server.  Not an OS-assigned one: between the moment such a port is released
/// and the moment the server binds it, the OS may hand it to a harness process running in parallel (sessions
/// would then reach the wrong server).  Ports below the ephemeral range, one slot per process and use.
pub fn private_port() -> u16 {
    use std::sync::atomic::{AtomicU32, Ordering};
    static NEXT: AtomicU32 = AtomicU32::new(0);
    for _ in 0..200 {
        let n = NEXT.fetch_add(1, Ordering::SeqCst);
        let port = (21000 + (std::process::id() % 80) * 100 + (n % 100)) as u16;
        let tag = format!(":{port:04X}");
        let used = std::fs::read_to_string("/proc/net/tcp")
            .map(|t| t.lines().skip(1).any(|l| l.split_whitespace().nth(1).map(|a| a.ends_with(&tag)).unwrap_or(false)))
            .unwrap_or(false);
        if !used {
            return port;
        }
    }
    0
}

pub fn is_client_name(s: &str) -> bool {
    s.len() >= 2 && s.starts_with('c') && s[1..].chars().all(|c| c.is_ascii_digit())
}

pub fn s(v: &Value, f: &str) -> String {
    v.get(f).and_then(|x| x.as_str()).unwrap_or("").to_owned()
}
pub fn u(v: &Value, f: &str) -> u64 {
    v.get(f).and_then(|x| x.as_u64()).unwrap_or(0)
}
pub fn b(v: &Value, f: &str) -> bool {
    v.get(f).and_then(|x| x.as_bool()).unwrap_or(false)
}

/// does a subscription pattern (segments, `?` one level, trailing `#` one or more levels) match a key?
/// Some(true/false), or None where implementations may differ (`#` standing for zero levels).
/// Used only to decide which marker events a stream has to be waited for.
pub fn marker_matches(pat: &[String], key: &[String]) -> Option<bool> {
    for (i, p) in pat.iter().enumerate() {
        if p == "#" {
            return if key.len() > i { Some(true) } else { None };
        }
        match key.get(i) {
            None => return Some(false),
            Some(k) => {
                if p != "?" && p != k {
                    return Some(false);
                }
            }
        }
    }
    Some(pat.len() == key.len())
}
