//! Paused-clock driver for the real `PStateAggregator` (C16).
//! Input: header {"hdr":true,"d":<interval ms>}, then schedules separated by {"op":"reset"}:
//!   {"op":"ev","kind":"set"|"del","k":"k1","v":"v1"}   hand one event to the aggregator
//!   {"op":"adv","ms":n}                                  let n ms of virtual time pass
//! Output: {"op":"ev",..,"at":t}, {"op":"batch","kind":..,"kvs":[[k,v]..],"at":t}, {"op":"end","at":t}.

use crate::util::s;
use serde_json::{Value, json};
use std::io::{BufRead, BufReader, BufWriter, Write};
use std::time::Duration;
use tokio::sync::mpsc;
use tokio::time::Instant;
use uuid::Uuid;
use worterbuch::verif::PStateAggregator;
use worterbuch_common::{KeyValuePair, PStateEvent, ServerMessage};

async fn settle() {
    for _ in 0..50 {
        tokio::task::yield_now().await;
    }
}

fn drain(rx: &mut mpsc::Receiver<ServerMessage>, t: u64, out: &mut BufWriter<std::fs::File>) {
    while let Ok(m) = rx.try_recv() {
        if let ServerMessage::PState(ps) = m {
            let (kind, kvs) = match ps.event {
                PStateEvent::KeyValuePairs(k) => ("set", k),
                PStateEvent::Deleted(k) => ("del", k),
            };
            let kvs: Vec<Value> = kvs.iter().map(|kv| json!([kv.key, kv.value])).collect();
            writeln!(out, "{}", json!({"op": "batch", "kind": kind, "kvs": kvs, "at": t})).ok();
        }
    }
}

pub fn main_run(args: &[String]) -> i32 {
    if args.len() < 2 {
        eprintln!("usage: wbverif agg-run <schedules.ndjson> <trace.ndjson>");
        return 2;
    }
    let rt = tokio::runtime::Builder::new_current_thread().enable_all().start_paused(true).build().expect("runtime");
    let input = BufReader::new(std::fs::File::open(&args[0]).expect("open input"));
    let mut out = BufWriter::new(std::fs::File::create(&args[1]).expect("create output"));
    rt.block_on(async move {
        let mut lines = input.lines();
        let hdr_line = lines.next().expect("header").expect("io");
        let hdr: Value = serde_json::from_str(&hdr_line).expect("json");
        writeln!(out, "{hdr_line}").ok();
        let d = Duration::from_millis(hdr["d"].as_u64().unwrap_or(5));
        let mut make = || {
            let (tx, rx) = mpsc::channel::<ServerMessage>(1000);
            let agg = PStateAggregator::new(tx, "#".to_owned(), d, 1, 1000, Uuid::nil());
            (agg, rx, Instant::now())
        };
        let (mut agg, mut rx, mut start) = make();
        let now_ms = |start: Instant| Instant::now().duration_since(start).as_millis() as u64;
        for line in lines {
            let line = line.expect("io");
            if line.trim().is_empty() {
                continue;
            }
            let r: Value = serde_json::from_str(&line).expect("json");
            match s(&r, "op").as_str() {
                "reset" => {
                    writeln!(out, "{}", json!({"op": "end", "at": now_ms(start)})).ok();
                    drop(agg);
                    settle().await;
                    let m = make();
                    agg = m.0;
                    rx = m.1;
                    start = m.2;
                    writeln!(out, "{}", json!({"op": "reset"})).ok();
                }
                "ev" => {
                    let kv = vec![KeyValuePair::of(s(&r, "k"), json!(s(&r, "v")))];
                    let e = if s(&r, "kind") == "del" { PStateEvent::Deleted(kv) } else { PStateEvent::KeyValuePairs(kv) };
                    let t = now_ms(start);
                    writeln!(out, "{}", json!({"op": "ev", "kind": s(&r, "kind"), "k": s(&r, "k"), "v": s(&r, "v"), "at": t})).ok();
                    agg.aggregate(e).await.ok();
                    settle().await;
                    drain(&mut rx, now_ms(start), &mut out);
                }
                "adv" => {
                    for _ in 0..r["ms"].as_u64().unwrap_or(0) {
                        tokio::time::advance(Duration::from_millis(1)).await;
                        settle().await;
                        drain(&mut rx, now_ms(start), &mut out);
                    }
                }
                _ => {}
            }
        }
        writeln!(out, "{}", json!({"op": "end", "at": now_ms(start)})).ok();
        out.flush().ok();
    });
    0
}
