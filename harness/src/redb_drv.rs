//! ReDB (incremental persistence) driver for C18: a real server with the ReDB backend in its
//! own runtime, a seeded history through its `WbApi` handle, an abrupt stop (the runtime is
//! dropped) or a clean one, a second server on the same file, read-back.
//! Input: header, scenarios separated by {"op":"reset"}: {"op":"req","r":..}..., {"op":"stop","clean":bool}
//! Output: {"op":"req","r":..,"rep":..}, {"op":"stop","clean":..}, {"op":"recovered","flat":[..]}

use crate::cluster_drv::{exec_api, probe, start, stop};
use crate::util::{Names, s};
use serde_json::{Value, json};
use std::io::{BufRead, BufReader, BufWriter, Write};
use std::path::PathBuf;
use std::time::Duration;
use worterbuch::{Config, PersistenceMode};

async fn cfg_for(dir: &PathBuf, bufsize: Option<usize>) -> Config {
    let mut cfg = crate::core_drv::base_config().await;
    if let Some(n) = bufsize {
        // also the size of the queue between the core and the background writer
        cfg.channel_buffer_size = n;
    }
    cfg.use_persistence = true;
    cfg.persistence_mode = PersistenceMode::ReDB;
    cfg.data_dir = dir.to_string_lossy().to_string();
    cfg.persistence_interval = Duration::from_secs(3600);
    cfg
}

pub fn main_run(args: &[String]) -> i32 {
    if args.len() < 3 {
        eprintln!("usage: wbverif redb-run <scenarios.ndjson> <trace.ndjson> <scratch-dir>");
        return 2;
    }
    let input = BufReader::new(std::fs::File::open(&args[0]).expect("open input"));
    let mut out = BufWriter::new(std::fs::File::create(&args[1]).expect("create output"));
    let root = PathBuf::from(&args[2]);
    std::fs::create_dir_all(&root).ok();
    let mut lines = input.lines();
    let hdr_line = lines.next().expect("header").expect("io");
    let hdr: Value = serde_json::from_str(&hdr_line).expect("json");
    writeln!(out, "{hdr_line}").ok();
    let meaning = hdr["meaning"].as_object().cloned().unwrap_or_default();
    let mut scen: Vec<Vec<Value>> = vec![vec![]];
    for line in lines {
        let line = line.expect("io");
        if line.trim().is_empty() {
            continue;
        }
        let r: Value = serde_json::from_str(&line).expect("json");
        if s(&r, "op") == "reset" {
            scen.push(vec![]);
        } else {
            scen.last_mut().expect("scenario").push(r);
        }
    }
    for (i, ops) in scen.iter().enumerate() {
        if ops.is_empty() {
            continue;
        }
        if i > 0 {
            writeln!(out, "{}", json!({"op": "reset"})).ok();
        }
        let dir = root.join(format!("r{}_{}", std::process::id(), i));
        let _ = std::fs::remove_dir_all(&dir);
        std::fs::create_dir_all(&dir).ok();
        let mut names = Names::new(meaning.clone());
        let rt = tokio::runtime::Builder::new_multi_thread().worker_threads(2).enable_all().build().expect("runtime");
        let bufsize = ops.iter().find(|r| s(r, "op") == "config").and_then(|r| r["channel_buffer_size"].as_u64()).map(|n| n as usize);
        let node = rt.block_on(async { start(cfg_for(&dir, bufsize).await, dir.clone()).await });
        let Some(node) = node else {
            writeln!(out, "{}", json!({"op": "error", "what": "server did not start"})).ok();
            continue;
        };
        let mut clean = false;
        for r in ops {
            match s(r, "op").as_str() {
                "req" => {
                    let q = &r["r"];
                    let rep = rt.block_on(exec_api(&node.api, &mut names, q));
                    writeln!(out, "{}", json!({"op": "req", "r": q, "rep": rep})).ok();
                }
                "yield" => {
                    // give the background writer a chance to run
                    let ms = r["ms"].as_u64().unwrap_or(1);
                    rt.block_on(async move { tokio::time::sleep(Duration::from_millis(ms)).await });
                }
                "stop" => {
                    clean = r["clean"].as_bool().unwrap_or(false);
                    break;
                }
                _ => {}
            }
        }
        writeln!(out, "{}", json!({"op": "stop", "clean": clean})).ok();
        if clean {
            rt.block_on(stop(node));
            drop(rt);
        } else {
            // the process dies: every task is dropped where it stands
            drop(node);
            rt.shutdown_background();
        }
        // the file lock of the old instance must be gone before the next start
        std::thread::sleep(Duration::from_millis(20));
        let rt2 = tokio::runtime::Builder::new_multi_thread().worker_threads(2).enable_all().build().expect("runtime");
        let mut rec = json!({"op": "recovered", "flat": [], "error": "second server did not start"});
        for _ in 0..50 {
            let n2 = rt2.block_on(async { start(cfg_for(&dir, bufsize).await, dir.clone()).await });
            if let Some(n2) = n2 {
                let p = rt2.block_on(probe(&n2.api, &names));
                rec = json!({"op": "recovered", "flat": p["flat"]});
                rt2.block_on(stop(n2));
                break;
            }
            std::thread::sleep(Duration::from_millis(50));
        }
        writeln!(out, "{rec}").ok();
        drop(rt2);
        let _ = std::fs::remove_dir_all(&dir);
    }
    out.flush().ok();
    0
}
