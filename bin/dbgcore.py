#!/usr/bin/env python3
"""debug helper: bin/dbgcore.py <replay.json> [flags...]: re-run the requests of a core-trace replay on the real core,
find the first record the specification (Dev = flags, default: known) rejects, and print what the specification
produces for that request next to what the implementation did."""
import sys, os, json, re, subprocess
sys.path.insert(0, os.path.dirname(os.path.abspath(__file__)))
import vlib, props
pl = json.load(open(sys.argv[1]))
flags = sys.argv[2:] if len(sys.argv) > 2 else vlib.known_flags()
d = vlib.workdir("dbgcore")
req = os.path.join(d, "req_dbg.ndjson")
open(req, "w").write(json.dumps(pl["header"]) + "\n" + "".join(json.dumps(r) + "\n" for r in pl["requests"]))
tr = os.path.join(d, "tr_dbg.ndjson")
vlib.run_harness(["core-run", req, tr])
lines = open(tr).read().splitlines()
r = vlib.validate_once(d, "Trace_Core", props.TRACE_CFG, tr, flags, "")
print("verdict:", {k: (str(v)[:300]) for k, v in r[1].items()} if isinstance(r, tuple) else r)
m = re.search(r'at record", (\d+)', (r[1].get("rejected") or "") if isinstance(r, tuple) else "")
if not m:
    sys.exit(0)
n = int(m.group(1))
obs = json.loads(lines[n - 1])
bare = {k: v for k, v in obs.items() if k not in ("rep", "ev", "ls", "lk", "proj")}
tr2 = os.path.join(d, "tr_dbg2.ndjson")
open(tr2, "w").write("\n".join(lines[:n - 1] + [json.dumps(bare)]) + "\n")
cfg = props.TRACE_CFG.replace("@DEV@", vlib.dev_set(flags)).replace("@INV@", "")
env = dict(vlib.TRACE_ENV, TRACE=tr2, WBDBG="1")
out = vlib.tlc(d, "Trace_Core", cfg, workers=1, timeout=600, env=env)
print("request:", json.dumps(bare))
print("IMPL rep:", obs.get("rep"), "\nIMPL ev:", json.dumps(obs.get("ev")), "\nIMPL ls:", json.dumps(obs.get("ls")), "\nIMPL lk:", obs.get("lk"))
print("IMPL flat:", json.dumps(sorted(obs.get("proj", {}).get("flat", []), key=str)))
for l in out.splitlines():
    if l.startswith('"DBG'):
        print("SPEC:", l[:6000])
