"""Per-property check definitions."""
import os, json, random, time, shutil
import vlib
from vlib import log, ToolError
import gens

TRACE_CFG = """SPECIFICATION TraceSpec
CONSTANTS
  Dev = @DEV@
  Meaning <- TraceMeaning
@INV@
POSTCONDITION TraceAccepted
CHECK_DEADLOCK FALSE
"""
CORE_TRACE_INV = "INVARIANTS TraceC01 TraceC05 CleanTrees C03Fold C06State C07State TraceEdge"


def mc_cfg(base_cfg, flags, edges=False):
    """derive the run configuration from spec/MC_<x>.cfg"""
    txt = open(os.path.join(vlib.SPEC, base_cfg)).read()
    txt = txt.replace("Dev = {}", "Dev = " + vlib.dev_set(flags))
    if edges:
        txt = "\n".join(l for l in txt.splitlines() if not l.startswith("INVARIANT"))
        txt = txt.replace("SPECIFICATION Spec", "SPECIFICATION SpecE").replace("CONSTRAINT Bound", "CONSTRAINT BoundE")
        txt += "\nVIEW ViewE\nACTION_CONSTRAINT Emit\n"
    return txt


def first_walk_with_record(req_file, recno):
    """requests of the walk that contains trace record number recno (1-based, header = 1)"""
    lines = open(req_file).read().splitlines()
    hdr = lines[0]
    start = 1
    for i in range(1, min(recno, len(lines))):
        if '"reset"' in lines[i] and '"op"' in lines[i] and len(lines[i]) < 20:
            start = i + 1
    return hdr, lines[start:recno]


def rejected_recno(detail):
    rej = (detail or {}).get("rejected") or ""
    parts = rej.split(",")
    try:
        return int(parts[1].strip())
    except Exception:
        return None


def run_and_validate(d, name, req_files, module, known, timeout, invariants=CORE_TRACE_INV, harness_cmd="core-run"):
    """execute request files on the real code, validate the traces.
    returns (nrecords, results per file)"""
    def one(req):
        tr = req.replace("req_", "tr_")
        vlib.run_harness([harness_cmd, req, tr])
        n = sum(1 for _ in open(tr)) - 1
        r = vlib.validate(d, module, TRACE_CFG, tr, invariants, known, timeout)
        r["req"], r["trace"], r["n"] = req, tr, n
        return r
    res = vlib.parallel(one, req_files)
    return sum(r["n"] for r in res), res


def collect(prop, results, known_seen, violations, tag):
    for r in results:
        if r["status"] == "known":
            for f in r["flags"]:
                known_seen[f] = known_seen.get(f, 0) + 1
        elif r["status"] == "violation":
            det = r.get("detail", {})
            recno = rejected_recno(det)
            payload = {"property": prop, "kind": "core-trace", "source": tag, "detail": det}
            if recno:
                hdr, reqs = first_walk_with_record(r["req"], recno)
                payload["header"] = json.loads(hdr)
                payload["requests"] = [json.loads(x) for x in reqs]
                tl = open(r["trace"]).read().splitlines()
                if recno - 1 < len(tl):
                    payload["observed"] = json.loads(tl[recno - 1])
            p = vlib.save_replay(prop, f"{tag}_{len(violations)}", payload)
            what = det.get("rejected") or det.get("error")
            violations.append({"replay": p, "what": what})


def core_check(cfg):
    """generic check of a property decided on Core/CoreSpec"""
    def run(prop, tier, seed, replay):
        known = vlib.known_flags()
        build_s = vlib.build_harness()
        d = vlib.workdir(prop)
        known_seen, violations = {}, []
        if replay:
            pl = json.load(open(replay))
            req = os.path.join(d, "req_replay.ndjson")
            with open(req, "w") as f:
                f.write(json.dumps(pl["header"]) + "\n")
                for r in pl["requests"]:
                    f.write(json.dumps(r) + "\n")
            _, res = run_and_validate(d, "replay", [req], "Trace_Core", known, 600)
            collect(prop, res, known_seen, violations, "replay")
            return {"known": known_seen, "violations": violations}

        t = cfg[tier]
        # 1. exhaustive model checking of the intended design
        t1 = time.time()
        out = "" if os.environ.get("VERIF_DEV_SKIP_MC") else vlib.tlc(d, cfg["mc"], mc_cfg(t["mc_cfg"], []), workers=t.get("workers", 8), timeout=t.get("mc_timeout", 1200),
                       heap=t.get("heap", "8g"))
        err = vlib.tlc_error(out)
        st = vlib.tlc_stats(out)
        if os.environ.get("VERIF_DEV_SKIP_MC"):
            st = {"distinct": 0, "generated": 0}
        if err or not st:
            # the specification itself violates the property: that is a defect of the
            # design model, reported as tool error (the spec is the deliverable under our control)
            raise ToolError("model checking of the ideal specification failed: %s\n%s" % (err, out[-3000:]))
        mc_s = time.time() - t1
        log(f"[{prop}] TLC ideal spec: {st['distinct']} distinct states, {st['generated']} transitions, {mc_s:.0f}s")

        # 2. spec -> impl: cover every edge of the bounded graph (as-is spec)
        t2 = time.time()
        edges, est, meaning, init = vlib.edge_dump(d, cfg["mc"], mc_cfg(t["edge_cfg"], known, edges=True), timeout=t.get("mc_timeout", 1200))
        walks, nstates, nedges = vlib.make_walks(edges, init, seed)
        req_all = os.path.join(d, "req_all.ndjson")
        vlib.write_requests(req_all, walks, meaning, proj=True)
        files = vlib.split_requests(req_all, t.get("chunks", 8), d)
        nrec, res = run_and_validate(d, "edges", files, "Trace_Core", known, t.get("val_timeout", 1200))
        collect(prop, res, known_seen, violations, "edges")
        ops = sorted({a.get("op") for (_, a, _) in edges})
        log(f"[{prop}] edge replay: {nstates} abstract states, {nedges} edges, {len(walks)} walks, {nrec} records, {time.time()-t2:.0f}s")

        # 3. impl -> spec: random histories beyond the bound
        t3 = time.time()
        rfiles, samples = [], []
        for i in range(t["random_runs"]):
            rnd = random.Random(seed * 1000003 + i)
            hdr, reqs = cfg["gen"](rnd, t["random_len"])
            p = os.path.join(d, f"req_rnd{i}.ndjson")
            with open(p, "w") as f:
                f.write(json.dumps(hdr) + "\n")
                for r in reqs:
                    f.write(json.dumps(r) + "\n")
            rfiles.append(p)
            if i == 0:
                samples = reqs[:12]
        nrnd, res2 = run_and_validate(d, "random", rfiles, "Trace_Core", known, t.get("val_timeout", 1200))
        collect(prop, res2, known_seen, violations, "random")
        log(f"[{prop}] random histories: {len(rfiles)} x {t['random_len']} requests, {nrnd} records, {time.time()-t3:.0f}s")

        cov = {
            "states": st["distinct"], "transitions": st["generated"],
            "traces_validated_against_impl": len(files) + len(rfiles),
            "samples": [{"walk_prefix": walks[0][:8] if walks else []}, {"random_prefix": samples}],
            "exhaustive": True,
            "mc_config": t["mc_cfg"], "abstract_states": nstates, "edges_replayed": nedges,
            "ops_covered": ops, "trace_records_validated": nrec + nrnd,
            "random_histories": len(rfiles), "random_history_length": t["random_len"],
            "build_s": round(build_s, 1), "mc_s": round(mc_s, 1),
            "explanation": "TLC exhaustive on the intended design within the MC config bounds; every edge of the "
                           "bounded as-is graph replayed into the real core and the recorded trace validated by TLC; "
                           "seeded random histories validated by TLC against the same specification",
        }
        return {"coverage": cov, "known": known_seen, "violations": violations,
                "assumptions": cfg.get("assumptions", [])}
    return run


CORE_ASSUME = [
    "the core is driven directly (worterbuch::verif::Worterbuch), one request at a time, as the single core task does (lib.rs:217-363)",
    "values are opaque tokens compared for equality; key segments contain no '/', '?' or '#' characters inside imports",
    "extended monitoring off; persistence backend Noop",
]

CHECKS = {}

CHECKS["C01"] = core_check({
    "mc": "MC_C01",
    "gen": gens.gen_c01,
    "assumptions": CORE_ASSUME,
    "quick": {"mc_cfg": "MC_C01.cfg", "edge_cfg": "MC_C01.cfg", "random_runs": 4, "random_len": 1500, "chunks": 8},
    "thorough": {"mc_cfg": "MC_C01_thorough.cfg", "edge_cfg": "MC_C01.cfg", "random_runs": 32, "random_len": 6000, "chunks": 8,
                 "mc_timeout": 3000, "heap": "16g"},
})


def reg(prop, mc, gen, quick, thorough):
    base_q = {"mc_cfg": f"{mc}.cfg", "edge_cfg": f"{mc}.cfg", "random_runs": 4, "random_len": 1200, "chunks": 8}
    base_t = {"mc_cfg": f"{mc}_thorough.cfg", "edge_cfg": f"{mc}.cfg", "random_runs": 32, "random_len": 5000, "chunks": 8,
              "mc_timeout": 3000, "heap": "16g"}
    base_q.update(quick)
    base_t.update(thorough)
    CHECKS[prop] = core_check({"mc": mc, "gen": gen, "assumptions": CORE_ASSUME, "quick": base_q, "thorough": base_t,
                               "meaning_from_mc": True})


reg("C03", "MC_C03", gens.gen_c03, {}, {})
reg("C05", "MC_C05", gens.gen_c05, {}, {})
reg("C06", "MC_C06", gens.gen_c06, {}, {})
reg("C07", "MC_C07", gens.gen_c07, {}, {})
reg("C08", "MC_C08", gens.gen_c08, {}, {})
