"""Per-property check definitions."""
import os, json, random, time, shutil, re
import vlib
from vlib import log, ToolError
import gens

TRACE_CFG = """SPECIFICATION TraceSpec
CONSTANTS
  Dev = @DEV@
  Meaning <- TraceMeaning
  ExtMon <- TraceExtMon
@INV@
POSTCONDITION TraceAccepted
CHECK_DEADLOCK FALSE
"""
CORE_TRACE_INV = "INVARIANTS TraceC01 TraceC05 CleanTrees C03Fold C06State C07State TraceEdge LockInfoInv"


def mc_cfg(base_cfg, flags, edges=False):
    """derive the run configuration from spec/MC_<x>.cfg"""
    txt = open(os.path.join(vlib.SPEC, base_cfg)).read()
    txt = txt.replace("Dev = {}", "Dev = " + vlib.dev_set(flags))
    if edges:
        txt = "\n".join(l for l in txt.splitlines() if not l.startswith("INVARIANT"))
        txt = txt.replace("SPECIFICATION Spec", "SPECIFICATION SpecE").replace("CONSTRAINT Bound", "CONSTRAINT BoundE")
        txt += "\nVIEW ViewE\nACTION_CONSTRAINT Emit\n"
    return txt


def first_walk_with_record(req_file, recno):
    """requests of the walk that contains trace record number recno (1-based, header = 1)"""
    lines = open(req_file).read().splitlines()
    hdr = lines[0]
    start = 1
    for i in range(1, min(recno, len(lines))):
        if '"reset"' in lines[i] and '"op"' in lines[i] and len(lines[i]) < 20:
            start = i + 1
    return hdr, lines[start:recno]


def rejected_recno(detail):
    rej = (detail or {}).get("rejected") or ""
    parts = rej.split(",")
    try:
        return int(parts[1].strip())
    except Exception:
        return None


def run_and_validate(d, name, req_files, module, known, timeout, invariants=CORE_TRACE_INV, harness_cmd="core-run"):
    """execute request files on the real code, validate the traces.
    returns (nrecords, results per file)"""
    def one(req):
        tr = req.replace("req_", "tr_")
        vlib.run_harness([harness_cmd, req, tr])
        n = sum(1 for _ in open(tr)) - 1
        r = vlib.validate(d, module, TRACE_CFG, tr, invariants, known, timeout)
        r["req"], r["trace"], r["n"] = req, tr, n
        return r
    res = vlib.parallel(one, req_files)
    return sum(r["n"] for r in res), res


def collect(prop, results, known_seen, violations, tag):
    for r in results:
        if r["status"] == "known":
            for f in r["flags"]:
                known_seen[f] = known_seen.get(f, 0) + 1
        elif r["status"] == "violation":
            det = r.get("detail", {})
            recno = rejected_recno(det)
            payload = {"property": prop, "kind": "core-trace", "source": tag, "detail": det}
            if recno:
                hdr, reqs = first_walk_with_record(r["req"], recno)
                payload["header"] = json.loads(hdr)
                payload["requests"] = [json.loads(x) for x in reqs]
                tl = open(r["trace"]).read().splitlines()
                if recno - 1 < len(tl):
                    payload["observed"] = json.loads(tl[recno - 1])
            p = vlib.save_replay(prop, f"{tag}_{len(violations)}", payload)
            what = det.get("rejected") or det.get("error")
            violations.append({"replay": p, "what": what})


def core_check(cfg):
    """generic check of a property decided on Core/CoreSpec"""
    def run(prop, tier, seed, replay):
        known = vlib.known_flags()
        build_s = vlib.build_harness()
        d = vlib.workdir(prop)
        known_seen, violations = {}, []
        if replay and json.load(open(replay)).get("kind") == "session-scenario":
            return session_check({"gen": None})(prop, tier, seed, replay)
        if replay:
            pl = json.load(open(replay))
            req = os.path.join(d, "req_replay.ndjson")
            with open(req, "w") as f:
                f.write(json.dumps(pl["header"]) + "\n")
                for r in pl["requests"]:
                    f.write(json.dumps(r) + "\n")
            _, res = run_and_validate(d, "replay", [req], "Trace_Core", known, 600)
            collect(prop, res, known_seen, violations, "replay")
            return {"known": known_seen, "violations": violations}

        t = cfg[tier]
        # 1. exhaustive model checking of the intended design
        t1 = time.time()
        out = "" if os.environ.get("VERIF_DEV_SKIP_MC") else vlib.tlc(d, cfg["mc"], mc_cfg(t["mc_cfg"], []), workers=t.get("workers", 8), timeout=t.get("mc_timeout", 1200),
                       heap=t.get("heap", "8g"))
        err = vlib.tlc_error(out)
        st = vlib.tlc_stats(out)
        if os.environ.get("VERIF_DEV_SKIP_MC"):
            st = {"distinct": 0, "generated": 0}
        if err or not st:
            # the specification itself violates the property: that is a defect of the
            # design model, reported as tool error (the spec is the deliverable under our control)
            raise ToolError("model checking of the ideal specification failed: %s\n%s" % (err, out[-3000:]))
        mc_s = time.time() - t1
        log(f"[{prop}] TLC ideal spec: {st['distinct']} distinct states, {st['generated']} transitions, {mc_s:.0f}s")

        # 2. spec -> impl: cover every edge of the bounded graph (as-is spec)
        t2 = time.time()
        edges, est, meaning, init = vlib.edge_dump(d, cfg["mc"], mc_cfg(t["edge_cfg"], known, edges=True), timeout=t.get("mc_timeout", 1200))
        walks, nstates, nedges = vlib.make_walks(edges, init, seed)
        req_all = os.path.join(d, "req_all.ndjson")
        vlib.write_requests(req_all, walks, meaning, proj=True)
        files = vlib.split_requests(req_all, t.get("chunks", 8), d)
        nrec, res = run_and_validate(d, "edges", files, "Trace_Core", known, t.get("val_timeout", 1200))
        collect(prop, res, known_seen, violations, "edges")
        ops = sorted({a.get("op") for (_, a, _) in edges})
        log(f"[{prop}] edge replay: {nstates} abstract states, {nedges} edges, {len(walks)} walks, {nrec} records, {time.time()-t2:.0f}s")

        # 3. impl -> spec: random histories beyond the bound
        t3 = time.time()
        rfiles, samples = [], []
        for i in range(t["random_runs"]):
            rnd = random.Random(seed * 1000003 + i)
            hdr, reqs = cfg["gen"](rnd, t["random_len"])
            p = os.path.join(d, f"req_rnd{i}.ndjson")
            with open(p, "w") as f:
                f.write(json.dumps(hdr) + "\n")
                for r in reqs:
                    f.write(json.dumps(r) + "\n")
            rfiles.append(p)
            if i == 0:
                samples = reqs[:12]
        nrnd, res2 = run_and_validate(d, "random", rfiles, "Trace_Core", known, t.get("val_timeout", 1200))
        collect(prop, res2, known_seen, violations, "random")
        log(f"[{prop}] random histories: {len(rfiles)} x {t['random_len']} requests, {nrnd} records, {time.time()-t3:.0f}s")

        # 3b. the same generator against a core with extended monitoring on (the server's default setting):
        # the bookkeeping requests the server issues itself run through the same stores, subscriber trees and
        # notifications, and must not disturb what the property says about client requests
        t3b = time.time()
        xfiles = []
        for i in range(t.get("extmon_runs", 2)):
            rnd = random.Random(seed * 104729 + i)
            hdr, reqs = cfg["gen"](rnd, t["random_len"])
            p = os.path.join(d, f"req_xmon{i}.ndjson")
            with open(p, "w") as f:
                f.write(json.dumps(dict(hdr, extmon=True)) + "\n")
                for r in reqs:
                    f.write(json.dumps(r) + "\n")
            xfiles.append(p)
        nx = 0
        if xfiles:
            nx, res3 = run_and_validate(d, "xmon", xfiles, "Trace_Core", known, t.get("val_timeout", 1200))
            collect(prop, res3, known_seen, violations, "extmon-random")
            nrnd += nx
            log(f"[{prop}] random histories with extended monitoring on: {len(xfiles)} x {t['random_len']} requests, {nx} records, {time.time()-t3b:.0f}s")

        # 3c. the same property observed through sockets (forwarding tasks of the protocol layer, real schedules)
        nlive_sc, nlive = 0, 0
        if cfg.get("live_gen"):
            t3c = time.time()
            lscs = cfg["live_gen"](random.Random(seed * 31 + 7), tier)

            def run_live(ib):
                i, part = ib
                path = os.path.join(d, f"sc_live{i}.ndjson")
                with open(path, "w") as f:
                    f.write(json.dumps({"hdr": True, "meaning": {}}) + "\n")
                    for s_ in part:
                        f.write(json.dumps(s_) + "\n")
                raw = os.path.join(d, f"raw_live{i}.ndjson")
                vlib.run_harness(["sock-run", path, raw, os.path.join(d, "sock")], timeout=1800)
                tr = os.path.join(d, f"tr_live{i}.ndjson")
                n = sess.postprocess(raw, tr)
                r = sess.validate(d, tr, known, 900)
                r["n"], r["scs"] = n, part
                return r
            nlive_sc = len(lscs)
            for i, r in enumerate(vlib.parallel(run_live, [(i, lscs[i::8]) for i in range(8) if lscs[i::8]])):
                nlive += r["n"]
                if r["status"] == "known":
                    for f_ in r["flags"]:
                        known_seen[f_] = known_seen.get(f_, 0) + 1
                elif r["status"] == "violation":
                    bad = None
                    for k, s_ in enumerate(r["scs"]):
                        r1 = run_live((f"{i}_{k}", [s_]))
                        if r1["status"] == "violation":
                            bad = (s_, r1)
                            break
                    p = vlib.save_replay(prop, f"live_{len(violations)}", {"property": prop, "kind": "session-scenario", "scenario": bad[0] if bad else r["scs"],
                                                                             "detail": (bad[1] if bad else r).get("detail"), "meaning": {}})
                    violations.append({"replay": p, "what": "the event streams the sessions received are not what the specification delivers: %s"
                                       % str((bad[1] if bad else r).get("detail", {}))[:400]})
            nrnd += nlive
            log(f"[{prop}] {len(lscs)} socket scenarios (subscriptions observed through sessions), {nlive} records, {time.time()-t3c:.0f}s")

        # 4. further configurations of the same property (other server settings): same three steps
        extras = []
        for ex in cfg.get("extras", []):
            t4 = time.time()
            exst = {"distinct": 0, "generated": 0}
            if not os.environ.get("VERIF_DEV_SKIP_MC"):
                out = vlib.tlc(d, ex["mc"], mc_cfg(ex["mc_cfg"], []), workers=8, timeout=1800, heap="8g")
                err, exst = vlib.tlc_error(out), vlib.tlc_stats(out)
                if err or not exst:
                    raise ToolError("model checking of the ideal specification (%s) failed: %s\n%s" % (ex["mc"], err, out[-3000:]))
            e_edges, _, e_meaning, e_init = vlib.edge_dump(d, ex["mc"], mc_cfg(ex["mc_cfg"], known, edges=True), timeout=1800)
            e_walks, e_nstates, e_nedges = vlib.make_walks(e_edges, e_init, seed)
            e_req = os.path.join(d, "req_%s.ndjson" % ex["name"])
            vlib.write_requests(e_req, e_walks, e_meaning, proj=True, extra_hdr=ex.get("hdr"))
            e_files = vlib.split_requests(e_req, 8, d)
            e_rfiles = []
            for i in range(t["random_runs"]):
                rnd = random.Random(seed * 7919 + i)
                hdr, reqs = ex["gen"](rnd, t["random_len"])
                p = os.path.join(d, "req_%s_rnd%d.ndjson" % (ex["name"], i))
                with open(p, "w") as f:
                    f.write(json.dumps(dict(hdr, **(ex.get("hdr") or {}))) + "\n")
                    for r in reqs:
                        f.write(json.dumps(r) + "\n")
                e_rfiles.append(p)
            e_n, e_res = run_and_validate(d, ex["name"], e_files + e_rfiles, "Trace_Core", known, 1200)
            collect(prop, e_res, known_seen, violations, ex["name"])
            nrec += e_n
            extras.append({"name": ex["name"], "states": exst["distinct"], "edges": e_nedges, "walks": len(e_walks), "records": e_n})
            log(f"[{prop}] {ex['name']}: TLC {exst['distinct']} states; {e_nedges} edges in {len(e_walks)} walks + {len(e_rfiles)} random histories, {e_n} records, {time.time()-t4:.0f}s")

        cov = {
            "states": st["distinct"], "transitions": st["generated"],
            "traces_validated_against_impl": len(files) + len(rfiles),
            "samples": [{"walk_prefix": walks[0][:8] if walks else []}, {"random_prefix": samples}],
            "exhaustive": True,
            "mc_config": t["mc_cfg"], "abstract_states": nstates, "edges_replayed": nedges,
            "ops_covered": ops, "trace_records_validated": nrec + nrnd,
            "random_histories": len(rfiles), "random_history_length": t["random_len"], "further_configurations": extras,
            "walks": len(walks), "socket_scenarios": nlive_sc, "socket_records_validated": nlive,
            "build_s": round(build_s, 1), "mc_s": round(mc_s, 1),
            "explanation": "TLC exhaustive on the intended design within the MC config bounds; every edge of the "
                           "bounded as-is graph replayed into the real core and the recorded trace validated by TLC; "
                           "seeded random histories validated by TLC against the same specification",
        }
        return {"coverage": cov, "known": known_seen, "violations": violations,
                "assumptions": cfg.get("assumptions", [])}
    return run


CORE_ASSUME = [
    "the core is driven directly (worterbuch::verif::Worterbuch), one request at a time, as the single core task does (lib.rs:217-363)",
    "values are opaque tokens compared for equality; key segments contain no '/', '?' or '#' characters inside imports",
    "persistence backend Noop; extended monitoring off in the model-checked configurations and the edge replay, on in part of the random histories",
]

CHECKS = {}

CHECKS["C01"] = core_check({
    "mc": "MC_C01",
    "gen": gens.gen_c01,
    "assumptions": CORE_ASSUME,
    "quick": {"mc_cfg": "MC_C01.cfg", "edge_cfg": "MC_C01.cfg", "random_runs": 4, "random_len": 1500, "chunks": 8},
    "thorough": {"mc_cfg": "MC_C01_thorough.cfg", "edge_cfg": "MC_C01.cfg", "random_runs": 32, "random_len": 6000, "chunks": 8,
                 "mc_timeout": 3000, "heap": "16g"},
})


EXTRAS = {"C08": [{"name": "extmon", "mc": "MC_C08x", "mc_cfg": "MC_C08x.cfg", "hdr": {"extmon": True}, "gen": gens.gen_c08x}]}


LIVE = {"C03": lambda rnd, tier: sess.gen_c03_live(rnd, tier)}


def reg(prop, mc, gen, quick, thorough):
    base_q = {"mc_cfg": f"{mc}.cfg", "edge_cfg": f"{mc}.cfg", "random_runs": 4, "random_len": 1200, "chunks": 8}
    base_t = {"mc_cfg": f"{mc}_thorough.cfg", "edge_cfg": f"{mc}.cfg", "random_runs": 32, "random_len": 5000, "chunks": 8, "extmon_runs": 8,
              "mc_timeout": 3000, "heap": "16g"}
    base_q.update(quick)
    base_t.update(thorough)
    CHECKS[prop] = core_check({"mc": mc, "gen": gen, "assumptions": CORE_ASSUME, "quick": base_q, "thorough": base_t,
                               "meaning_from_mc": True, "extras": EXTRAS.get(prop, []), "live_gen": LIVE.get(prop)})


reg("C03", "MC_C03", gens.gen_c03, {}, {})
reg("C05", "MC_C05", gens.gen_c05, {}, {})
reg("C06", "MC_C06", gens.gen_c06, {}, {})
reg("C07", "MC_C07", gens.gen_c07, {}, {})
reg("C08", "MC_C08", gens.gen_c08, {}, {})



def c04_check(prop, tier, seed, replay):
    known = vlib.known_flags()
    build_s = vlib.build_harness()
    d = vlib.workdir(prop)
    known_seen, violations = {}, []
    if replay:
        pl = json.load(open(replay))
        req = os.path.join(d, "req_replay.ndjson")
        with open(req, "w") as f:
            f.write(json.dumps(pl["header"]) + "\n")
            for r in pl["requests"]:
                f.write(json.dumps(r) + "\n")
        _, res = run_and_validate(d, "replay", [req], "Trace_Core", known, 900)
        collect(prop, res, known_seen, violations, "replay")
        return {"known": known_seen, "violations": violations}
    depth = 3 if tier == "quick" else 4
    t1 = time.time()
    out = vlib.tlc(d, "MC_C04", mc_cfg("MC_C04.cfg" if tier == "quick" else "MC_C04_thorough.cfg", []), workers=8, timeout=3000, heap="8g")
    err, st = vlib.tlc_error(out), vlib.tlc_stats(out)
    if err or not st:
        raise ToolError("model checking of the ideal specification failed: %s\n%s" % (err, out[-3000:]))
    log(f"[{prop}] TLC: agreement of the three traversals with the documented relation for {st['distinct']} patterns (depth {depth}), {time.time()-t1:.0f}s")
    hdr, files, npats, nkeys = gens.enum_c04(depth, 8 if tier == "quick" else 16)
    paths = []
    for i, walks in enumerate(files):
        p = os.path.join(d, f"req_{i}.ndjson")
        vlib.write_requests(p, walks, {}, proj=False)
        paths.append(p)
    t2 = time.time()
    nrec, res = run_and_validate(d, "table", paths, "Trace_Core", known, 3000)
    collect(prop, res, known_seen, violations, "table")
    log(f"[{prop}] table on the real core: {npats} patterns x {nkeys} keys, {nrec} records, {time.time()-t2:.0f}s")
    cov = {"states": st["distinct"], "transitions": max(1, st["generated"]),
           "traces_validated_against_impl": len(paths),
           "samples": [{"pattern": files[0][3][1]["pat"], "requests": files[0][3][:3] + files[0][3][-3:]}],
           "exhaustive": True, "patterns": npats, "keys": nkeys, "pairs": npats * nkeys, "trace_records_validated": nrec,
           "explanation": "every (pattern, key) pair up to the depth: TLC evaluates the agreement of the implementation-shaped "
                          "traversals with the documented relation on the model; the real core answers pget/pdelete/notification "
                          "for every pair and TLC validates the recorded trace against the specification"}
    return {"coverage": cov, "known": known_seen, "violations": violations, "assumptions": CORE_ASSUME}


CHECKS["C04"] = c04_check


# ----------------------------------------------------------------------------- C10 / C09: JSON persistence
PERSIST_TRACE_CFG = """SPECIFICATION TraceSpec
CONSTANTS
  Dev = @DEV@
  MaxGen = 100000
  MaxCrashes = 100000
@INV@
POSTCONDITION TraceAccepted
CHECK_DEADLOCK FALSE
"""


def persist_scenarios(tier, rnd):
    """every file-system step of a flush as crash point, for every flush of a short history,
    crash -> restart -> flush -> crash sequences, crashes inside the load chain"""
    K = list(range(1, 17))          # 15 steps per flush in the intended design, 14 in the pinned one
    sc = []
    def hist(h):
        ops = []
        for i in range(h):
            ops += [{"op": "flush"}, {"op": "mutate"}]
        return ops
    for h in range(0, 4):
        for k in K:
            sc.append(hist(h) + [{"op": "flush", "crash_at": k}, {"op": "crash"}, {"op": "load"}])
    k2s = K if tier == "thorough" else [1, 2, 5, 8, 11, 13, 14, 15]
    for h in range(0, 3):
        for k1 in K:
            for k2 in k2s:
                sc.append(hist(h) + [{"op": "flush", "crash_at": k1}, {"op": "crash"}, {"op": "load"}, {"op": "mutate"},
                                     {"op": "flush", "crash_at": k2}, {"op": "crash"}, {"op": "load"}])
    for h in range(0, 3):
        for k in K:
            for j in (1, 2, 3, 4):
                sc.append(hist(h) + [{"op": "flush", "crash_at": k}, {"op": "crash"}, {"op": "load", "crash_at": j}, {"op": "load"},
                                     {"op": "flush"}, {"op": "crash"}, {"op": "load"}])
    # content that comes back: a later state equal to an earlier one (byte-identical files)
    for k in K:
        for back in (1, 2):
            sc.append([{"op": "flush"}, {"op": "mutate"}, {"op": "flush"}, {"op": "mutate"}, {"op": "flush", "crash_at": k}, {"op": "crash"},
                       {"op": "load"}, {"op": "mutate", "to": back}, {"op": "flush"}, {"op": "crash"}, {"op": "load"}])
    n_rand = 300 if tier == "quick" else 4000
    for _ in range(n_rand):
        ops = []
        for _ in range(rnd.randint(2, 6)):
            r = rnd.random()
            mut = {"op": "mutate"} if rnd.random() < 0.6 else {"op": "mutate", "to": rnd.randint(1, 3)}
            if r < 0.3:
                ops += [mut, {"op": "flush"}]
            elif r < 0.8:
                ops += [mut, {"op": "flush", "crash_at": rnd.randint(1, 16)}, {"op": "crash"},
                        {"op": "load"} if rnd.random() < 0.8 else {"op": "load", "crash_at": rnd.randint(1, 4)}, {"op": "load"}]
            else:
                ops += [{"op": "crash"}, {"op": "load"}]
        sc.append(ops)
    return sc


def c10_check(prop, tier, seed, replay):
    known = [f for f in vlib.known_flags() if f == "D_TOGGLE_FIRST"]
    build_s = vlib.build_harness()
    d = vlib.workdir(prop)
    known_seen, violations = {}, []
    rnd = random.Random(seed)

    def write_sc(path, scs):
        with open(path, "w") as f:
            f.write('{"hdr":true}\n')
            for i, ops in enumerate(scs):
                if i:
                    f.write('{"op":"reset"}\n')
                for o in ops:
                    f.write(json.dumps(o) + "\n")

    def run_files(files):
        def one(req):
            tr = req.replace("req_", "tr_")
            vlib.run_harness(["persist-run", req, tr, os.path.join(d, "dirs_" + os.path.basename(req))])
            n = sum(1 for _ in open(tr)) - 1
            r = vlib.validate(d, "Trace_Persist", PERSIST_TRACE_CFG, tr, "INVARIANTS C10Inv", known, 1200)
            r["req"], r["trace"], r["n"] = req, tr, n
            return r
        res = vlib.parallel(one, files)
        return sum(r["n"] for r in res), res

    def collect_p(results, tag):
        for r in results:
            if r["status"] == "known":
                for f in (r["flags"] or known):
                    known_seen[f] = known_seen.get(f, 0) + 1
            elif r["status"] == "violation":
                det = r.get("detail", {})
                recno = rejected_recno(det)
                payload = {"property": prop, "kind": "persist-trace", "detail": det}
                if recno:
                    # the scenario that contains the rejected record: cut the trace at reset records
                    tl = open(r["trace"]).read().splitlines()
                    nres = sum(1 for x in tl[1:recno] if '"reset"' in x)
                    scs = open(r["req"]).read().split('{"op":"reset"}\n')
                    body = scs[nres] if nres < len(scs) else ""
                    payload["scenario"] = [json.loads(x) for x in body.splitlines() if x.strip() and '"hdr"' not in x]
                    payload["observed_tail"] = [json.loads(x) for x in tl[max(1, recno - 12):recno]]
                p = vlib.save_replay(prop, f"{tag}_{len(violations)}", payload)
                violations.append({"replay": p, "what": det.get("rejected") or det.get("error")})

    if replay:
        pl = json.load(open(replay))
        req = os.path.join(d, "req_replay.ndjson")
        write_sc(req, [pl["scenario"]])
        _, res = run_files([req])
        collect_p(res, "replay")
        return {"known": known_seen, "violations": violations}

    t1 = time.time()
    cfgname = "MC_C10.cfg" if tier == "quick" else "MC_C10_thorough.cfg"
    out = vlib.tlc(d, "Persist", mc_cfg(cfgname, []), workers=8, timeout=3000, heap="8g")
    err, st = vlib.tlc_error(out), vlib.tlc_stats(out)
    if err or not st:
        raise ToolError("model checking of the ideal specification failed: %s\n%s" % (err, out[-3000:]))
    log(f"[{prop}] TLC Persist (intended design): {st['distinct']} distinct states, {st['generated']} transitions, {time.time()-t1:.0f}s")
    scs = persist_scenarios(tier, rnd)
    nfiles = 8
    files = []
    for i in range(nfiles):
        p = os.path.join(d, f"req_{i}.ndjson")
        write_sc(p, scs[i::nfiles])
        files.append(p)
    t2 = time.time()
    nrec, res = run_files(files)
    collect_p(res, "crash")
    for i in range(nfiles):
        shutil.rmtree(os.path.join(d, f"dirs_req_{i}.ndjson"), ignore_errors=True)
    log(f"[{prop}] {len(scs)} crash scenarios on the real flush/load code, {nrec} file-system steps validated, {time.time()-t2:.0f}s")
    cov = {"states": st["distinct"], "transitions": st["generated"], "traces_validated_against_impl": len(scs),
           "samples": scs[70:72], "exhaustive": True, "crash_scenarios": len(scs), "trace_records_validated": nrec,
           "explanation": "TLC explores every interleaving of mutate / flush steps / crash / load steps of the intended design within "
                          "MaxGen/MaxCrashes; the real flush and load code is run with a crash after every file-system step (single, "
                          "double and in-load crashes, plus random sequences); the recorded steps and recovered generations are "
                          "validated by TLC against Persist.tla with C10Inv evaluated in every state"}
    return {"coverage": cov, "known": known_seen, "violations": violations,
            "assumptions": ["process-crash model: completed file operations persist in order, only *.tmp files can be torn",
                            "a crash is simulated by unwinding out of the flush/load call right after a file-system step (hook verif::fs_step)",
                            "content abstracted to generations (store generation in key k, registration generation in the last will)"]}


CHECKS["C10"] = c10_check

reg("C09", "MC_C09", gens.gen_c09, {"random_len": 800}, {"random_len": 3000})


# ----------------------------------------------------------------------------- socket-level properties
import sess


def session_check(cfg):
    def run(prop, tier, seed, replay):
        known = vlib.known_flags()
        build_s = vlib.build_harness()
        d = vlib.workdir(prop)
        known_seen, violations = {}, []
        rnd = random.Random(seed)

        def run_batch(scs, tag):
            path = os.path.join(d, f"sc_{tag}.ndjson")
            with open(path, "w") as f:
                f.write(json.dumps({"hdr": True, "meaning": cfg.get("meaning", {})}) + "\n")
                for s_ in scs:
                    f.write(json.dumps(s_) + "\n")
            raw = os.path.join(d, f"raw_{tag}.ndjson")
            vlib.run_harness(["sock-run", path, raw, os.path.join(d, "sock")], timeout=1800)
            tr = os.path.join(d, f"tr_{tag}.ndjson")
            n = sess.postprocess(raw, tr)
            r = sess.validate(d, tr, known, cfg.get("val_timeout", 900))
            r["n"], r["scs"], r["raw"], r["trace"] = n, scs, raw, tr
            return r

        def handle(r, tag):
            if r["status"] == "known":
                for f in r["flags"]:
                    known_seen[f] = known_seen.get(f, 0) + 1
            elif r["status"] == "violation":
                # locate the failing scenario: validate them one by one
                bad = None
                for i, s_ in enumerate(r["scs"]):
                    r1 = run_batch([s_], f"{tag}_one{i}")
                    if r1["status"] == "violation":
                        bad = (i, s_, r1)
                        break
                payload = {"property": prop, "kind": "session-scenario", "scenario": bad[1] if bad else r["scs"],
                           "detail": (bad[2] if bad else r).get("detail"), "meaning": cfg.get("meaning", {})}
                # keep the recording that was rejected (schedules differ from run to run)
                keep = os.path.join(vlib.WORK, "replay", f"{prop}_{tag}_{len(violations)}_rejected_trace.ndjson")
                os.makedirs(os.path.dirname(keep), exist_ok=True)
                src_tr = (bad[2] if bad else r).get("trace")
                if src_tr and os.path.exists(src_tr):
                    shutil.copy(src_tr, keep)
                    payload["rejected_trace"] = keep
                p = vlib.save_replay(prop, f"{tag}_{len(violations)}", payload)
                violations.append({"replay": p, "what": "no interleaving of the session logs is a behaviour of the specification: %s"
                                   % str((bad[2] if bad else r).get("detail", {}))[:600]})

        if replay:
            pl = json.load(open(replay))
            scs = pl["scenario"] if isinstance(pl["scenario"], list) else [pl["scenario"]]
            for k in range(5):      # concurrent schedules differ from run to run
                r = run_batch(scs, f"replay{k}")
                handle(r, "replay")
                if violations:
                    break
            return {"known": known_seen, "violations": violations}

        # 1. exhaustive model checking of the intended design
        t1 = time.time()
        st = {"distinct": 0, "generated": 0}
        if not os.environ.get("VERIF_DEV_SKIP_MC"):
            out = vlib.tlc(d, cfg["mc"], mc_cfg(cfg["mc_cfg"][tier], []), workers=8, timeout=3000, heap="8g")
            err, st = vlib.tlc_error(out), vlib.tlc_stats(out)
            if err or not st:
                raise ToolError("model checking of the ideal specification failed: %s\n%s" % (err, out[-3000:]))
        log(f"[{prop}] TLC ideal spec ({cfg['mc']}): {st['distinct']} distinct states, {st['generated']} transitions, {time.time()-t1:.0f}s")
        # 2. real sessions over the unix socket, validated as linearizable w.r.t. the spec
        t2 = time.time()
        scs = cfg["gen"](rnd, tier)
        nb = 8
        batches = [scs[i::nb] for i in range(nb) if scs[i::nb]]
        results = vlib.parallel(lambda ib: run_batch(ib[1], f"b{ib[0]}"), list(enumerate(batches)))
        nrec = 0
        for i, r in enumerate(results):
            nrec += r["n"]
            handle(r, f"b{i}")
        log(f"[{prop}] {len(scs)} socket scenarios, {nrec} records linearized against the spec, {time.time()-t2:.0f}s")
        if cfg.get("core_hist"):
            # histories only the core API can produce (imports): executed by the real core, validated by Trace_Core
            t3 = time.time()
            hdr, hists = cfg["core_hist"](rnd, 24 if tier == "quick" else 400)
            files = []
            for ci in range(4):
                path = os.path.join(d, f"req_core{ci}.ndjson")
                with open(path, "w") as f:
                    f.write(json.dumps(hdr) + "\n")
                    for h in hists[ci::4]:
                        for r_ in h:
                            f.write(json.dumps(r_) + "\n")
                        f.write('{"op":"reset"}\n')
                files.append(path)
            nb, res = run_and_validate(d, "core", files, "Trace_Core", known, 900)
            collect(prop, res, known_seen, violations, "boundary")
            nrec += nb
            log(f"[{prop}] {len(hists)} core-level histories (imports, restarts), {nb} records, {time.time()-t3:.0f}s")
        cov = {"states": max(1, st["distinct"]), "transitions": max(1, st["generated"]),
               "traces_validated_against_impl": len(scs), "samples": [scs[0]], "exhaustive": False,
               "trace_records_validated": nrec,
               "explanation": "TLC exhaustive on the session-layer model; real concurrent sessions over the unix socket, every "
                              "session log and event stream explained by some interleaving (position-vector search in TLC)"}
        return {"coverage": cov, "known": known_seen, "violations": violations, "assumptions": cfg.get("assumptions", [])}
    return run


SESSION_ASSUME = ["in-process server (spawn_worterbuch); about two thirds of the scenarios over the unix socket endpoint, one third over the TCP "
                  "endpoint; the WebSocket transport shares the protocol layer but is not driven", "sessions proceed in rounds separated by barriers so that the interleaving search stays small",
                  "subscription streams are flushed by marker publishes of an admin session; streams of closed or unsubscribed "
                  "subscriptions are compared as prefixes"]

CHECKS["C13"] = session_check({"mc": "MC_Session", "mc_cfg": {"quick": "MC_Session_noauth.cfg", "thorough": "MC_Session_noauth.cfg"},
                               "gen": sess.gen_c13, "assumptions": SESSION_ASSUME})
AUTH_TRACE_CFG = """SPECIFICATION ASpec
POSTCONDITION TraceAccepted
CHECK_DEADLOCK FALSE
"""


def c15_check(prop, tier, seed, replay):
    """the containment table (exhaustive), then the sessions with tokens"""
    inner = session_check({"mc": "MC_Session", "mc_cfg": {"quick": "MC_Session.cfg", "thorough": "MC_Session.cfg"},
                           "gen": sess.gen_c15, "assumptions": SESSION_ASSUME + ["grants are legal patterns (a `#` only in last position)"]})
    if replay and json.load(open(replay)).get("kind") != "auth-table":
        return inner(prop, tier, seed, replay)
    import itertools
    vlib.build_harness()
    d0 = vlib.workdir(prop + "tab")
    depth = 3 if tier == "quick" else 4
    t0 = time.time()
    st = {"distinct": 0, "generated": 0}
    if not os.environ.get("VERIF_DEV_SKIP_MC"):
        out = vlib.tlc(d0, "MC_C15tab", open(os.path.join(vlib.SPEC, "MC_C15tab.cfg" if tier == "quick" else "MC_C15tab_thorough.cfg")).read(),
                       workers=8, timeout=3000, heap="8g")
        err, st = vlib.tlc_error(out), vlib.tlc_stats(out)
        if err or not st:
            raise ToolError("the containment table fails on the specification: %s\n%s" % (err, out[-3000:]))
    segs = ["a", "b", "?", "#"]
    pats = [list(p) for n in range(1, depth + 1) for p in itertools.product(segs, repeat=n)]
    grants = [g for g in pats if "#" not in g[:-1]]
    req = os.path.join(d0, "pairs.ndjson")
    with open(req, "w") as f:
        f.write(json.dumps({"hdr": True}) + "\n")
        for g in grants:
            for p in pats:
                f.write(json.dumps({"g": g, "p": p}) + "\n")
    tr = os.path.join(d0, "answers.ndjson")
    vlib.run_harness(["auth-run", req, tr])
    env = dict(vlib.TRACE_ENV, TRACE=tr)
    out = vlib.tlc(d0, "Trace_Auth", AUTH_TRACE_CFG, workers=1, timeout=1800, env=env, heap="3g")
    npairs = len(grants) * len(pats)
    tab_viol = []
    if "Model checking completed. No error" not in out:
        rej = next((l for l in out.splitlines() if l.startswith('<<"TRACE-REJECTED')), None)
        if rej is None:
            raise ToolError("TLC failed on the containment answers:\n" + out[-3000:])
        m = re.search(r'at record", (\d+)', rej)
        bad = json.loads(open(tr).read().splitlines()[int(m.group(1)) - 1]) if m else {}
        p = vlib.save_replay(prop, "table_0", {"property": prop, "kind": "auth-table", "pair": bad})
        tab_viol.append({"replay": p, "what": "auth::pattern_matches answers %s where the specification's transcription (sound and complete against the "
                                           "documented match relation, checked by TLC) answers the opposite" % json.dumps(bad)})
    log(f"[{prop}] containment table: TLC {st['distinct']} pairs sound and complete (depth {depth}); the real pattern_matches agrees on {npairs} pairs, {time.time()-t0:.0f}s")
    if replay:
        return {"known": {}, "violations": tab_viol}
    res = inner(prop, tier, seed, None)
    res["violations"] = tab_viol + res["violations"]
    res["coverage"]["containment_pairs_checked"] = npairs
    res["coverage"]["states"] += st["distinct"]
    return res


CHECKS["C17"] = session_check({"mc": "MC_Session", "mc_cfg": {"quick": "MC_Session_noauth.cfg", "thorough": "MC_Session_noauth.cfg"},
                               "gen": sess.gen_c17, "core_hist": gens.gen_c17_core,
                               "assumptions": SESSION_ASSUME + ["inputs that only the import endpoint / a restart can produce are given to the core directly"]})

CHECKS["C15"] = c15_check

CHECKS["C02"] = session_check({"mc": "MC_C02", "mc_cfg": {"quick": "MC_C02.cfg", "thorough": "MC_C02_thorough.cfg"},
                               "gen": sess.gen_c02, "core_hist": gens.gen_c02_boundary,
                               "assumptions": SESSION_ASSUME + ["cget/cset cycles of 2-4 unsynchronised sessions; no barriers",
                                                                "u64 versions above 2^64-1001 are mapped onto 1999999000..2000000000 of the specification's integers"]})


# ----------------------------------------------------------------------------- C20: client library
BUFFER_TRACE_CFG = """SPECIFICATION TSpec
CONSTANTS
  D = 10
  BKeys = {"a", "b", "c"}
  BVals = {}
  MaxHand = 0
  MaxTime = 0
  BDev = @DEV@
INVARIANT TraceC20
INVARIANT NotAccepted
CHECK_DEADLOCK FALSE
"""


def c20_check(prop, tier, seed, replay):
    known = vlib.known_flags()
    bknown = [f for f in known if f == "D_PUB_BUFFER"]
    vlib.build_harness()
    d = vlib.workdir(prop)
    rnd = random.Random(seed)
    known_seen, violations = {}, []

    # -- pairing / typed results / unsubscribe: calls of concurrent tasks on one connection --------
    def run_calls(scs, tag):
        path = os.path.join(d, f"sc_{tag}.ndjson")
        with open(path, "w") as f:
            f.write(json.dumps({"hdr": True, "meaning": {}}) + "\n")
            for s_ in scs:
                f.write(json.dumps(s_) + "\n")
        raw = os.path.join(d, f"raw_{tag}.ndjson")
        vlib.run_harness(["client-run", path, raw, os.path.join(d, "sock")], timeout=1800)
        tr = os.path.join(d, f"tr_{tag}.ndjson")
        n = sess.postprocess(raw, tr)
        r = sess.validate(d, tr, known, 900)
        r["n"], r["scs"] = n, scs
        return r

    def handle_calls(r, tag):
        if r["status"] == "known":
            for f in r["flags"]:
                known_seen[f] = known_seen.get(f, 0) + 1
        elif r["status"] == "violation":
            bad = None
            for i, s_ in enumerate(r["scs"]):
                r1 = run_calls([s_], f"{tag}_one{i}")
                if r1["status"] == "violation":
                    bad = (i, s_, r1)
                    break
            payload = {"property": prop, "kind": "client-calls", "scenario": bad[1] if bad else r["scs"],
                       "detail": (bad[2] if bad else r).get("detail")}
            p = vlib.save_replay(prop, f"{tag}_{len(violations)}", payload)
            violations.append({"replay": p, "what": "the results of the library calls (and the server-side probes after unsubscribe) are not "
                               "explained by any interleaving of the calls in the specification: %s" % str((bad[2] if bad else r).get("detail", {}))[:500]})

    # -- send buffer ----------------------------------------------------------------------------
    def validate_buffer(trace, flags):
        import hashlib, shutil
        sub = os.path.join(d, "vb_" + hashlib.md5((trace + ",".join(flags)).encode()).hexdigest()[:10])
        os.makedirs(sub, exist_ok=True)
        for f in os.listdir(d):
            if f.endswith(".tla"):
                shutil.copy(os.path.join(d, f), sub)
        env = dict(vlib.TRACE_ENV)
        env["TRACE"] = trace
        out = vlib.tlc(sub, "Trace_Buffer", BUFFER_TRACE_CFG.replace("@DEV@", vlib.dev_set(flags)), workers=1, timeout=600, env=env, heap="3g")
        shutil.rmtree(os.path.join(sub, "md"), ignore_errors=True)
        if "Invariant NotAccepted is violated" in out:
            used = []
            for line in out.splitlines():
                if line.startswith('"DEV-USED'):
                    used = sorted(set(re.findall(r"D_[A-Z_]+", line)))
            return True, {"used": used}
        st = vlib.tlc_stats(out)
        err = vlib.tlc_error(out)
        if st is None and err is None:
            raise ToolError("TLC gave no result:\n" + out[-3000:])
        if err and "Invariant" not in err:
            raise ToolError("TLC evaluation error on buffer trace:\n" + out[-4000:])
        return False, {"tail": out[-600:], "err": err}

    def run_buffer(scs, tag):
        path = os.path.join(d, f"bsc_{tag}.ndjson")
        with open(path, "w") as f:
            f.write(json.dumps({"hdr": True}) + "\n")
            for s_ in scs:
                f.write(json.dumps(s_) + "\n")
        tr = os.path.join(d, f"btr_{tag}.ndjson")
        vlib.run_harness(["buffer-run", path, tr], timeout=900)
        n = sum(1 for _ in open(tr)) - 1
        ok, det = validate_buffer(tr, [])
        if ok:
            return {"status": "ok", "n": n, "scs": scs}
        if bknown:
            ok2, det2 = validate_buffer(tr, bknown)
            if ok2:
                return {"status": "known", "flags": det2["used"], "n": n, "scs": scs}
        return {"status": "violation", "detail": det, "n": n, "scs": scs, "trace": tr}

    def handle_buffer(r, tag):
        if r["status"] == "known":
            for f in r["flags"]:
                known_seen[f] = known_seen.get(f, 0) + 1
        elif r["status"] == "violation":
            bad = None
            for i, s_ in enumerate(r["scs"]):
                r1 = run_buffer([s_], f"{tag}_one{i}")
                if r1["status"] == "violation":
                    bad = (s_, r1)
                    break
            obs = [json.loads(x) for x in open(bad[1]["trace"]).read().splitlines()[1:]] if bad else None
            payload = {"property": prop, "kind": "send-buffer", "scenario": bad[0] if bad else r["scs"], "observed": obs,
                       "detail": (bad[1] if bad else r).get("detail")}
            p = vlib.save_replay(prop, f"buf_{tag}_{len(violations)}", payload)
            violations.append({"replay": p, "what": "what the send buffer sent is not a behaviour of SendBuffer.tla in which every value handed over "
                               "leaves as a set/publish of the latest value of its key: observed %s" % json.dumps(obs)[:700]})

    if replay:
        pl = json.load(open(replay))
        scs = pl["scenario"] if isinstance(pl["scenario"], list) else [pl["scenario"]]
        if pl.get("kind") == "send-buffer":
            handle_buffer(run_buffer(scs, "replay"), "replay")
        else:
            for k in range(5):
                handle_calls(run_calls(scs, f"replay{k}"), "replay")
                if violations:
                    break
        return {"known": known_seen, "violations": violations}

    # 1. model checking: the send buffer design (safety + liveness); the session model is checked under C13
    t1 = time.time()
    st = {"distinct": 0, "generated": 0}
    if not os.environ.get("VERIF_DEV_SKIP_MC"):
        cfg = open(os.path.join(vlib.SPEC, "MC_C20buf.cfg")).read()
        if tier == "quick":
            cfg = cfg.replace("MaxHand = 4", "MaxHand = 3")
        out = vlib.tlc(d, "MC_C20buf", cfg, workers=8, timeout=3000, heap="8g")
        err, st = vlib.tlc_error(out), vlib.tlc_stats(out)
        if err or not st:
            raise ToolError("model checking of SendBuffer failed: %s\n%s" % (err, out[-3000:]))
        out = vlib.tlc(d, "MC_C20buf", open(os.path.join(vlib.SPEC, "MC_C20buf_live.cfg")).read(), workers=4, timeout=3000, heap="8g")
        err2, st2 = vlib.tlc_error(out), vlib.tlc_stats(out)
        if err2 or not st2:
            raise ToolError("liveness checking of SendBuffer failed: %s\n%s" % (err2, out[-3000:]))
    log(f"[{prop}] TLC SendBuffer (safety + EventuallyQuiet): {st['distinct']} distinct states, {time.time()-t1:.0f}s")
    # 2. concurrent calls
    t2 = time.time()
    scs = sess.gen_c20(rnd, tier)
    nb = 8
    batches = [scs[i::nb] for i in range(nb) if scs[i::nb]]
    results = vlib.parallel(lambda ib: run_calls(ib[1], f"b{ib[0]}"), list(enumerate(batches)))
    nrec = 0
    for i, r in enumerate(results):
        nrec += r["n"]
        handle_calls(r, f"b{i}")
    log(f"[{prop}] {len(scs)} client scenarios (2-4 tasks on one connection), {nrec} records linearized against the spec, {time.time()-t2:.0f}s")
    # 3. send buffer
    t3 = time.time()
    bscs = sess.gen_c20_buffer(rnd, tier)
    bb = [bscs[i::nb] for i in range(nb) if bscs[i::nb]]
    bres = vlib.parallel(lambda ib: run_buffer(ib[1], f"b{ib[0]}"), list(enumerate(bb)))
    nobs = 0
    for i, r in enumerate(bres):
        nobs += r["n"]
        handle_buffer(r, f"b{i}")
    log(f"[{prop}] {len(bscs)} send-buffer scenarios, {nobs} observations explained by SendBuffer.tla, {time.time()-t3:.0f}s")
    cov = {"states": max(1, st["distinct"]), "transitions": max(1, st["generated"]),
           "traces_validated_against_impl": len(scs) + len(bscs), "samples": [scs[0], bscs[0]], "exhaustive": False,
           "trace_records_validated": nrec + nobs,
           "explanation": "TLC exhaustive on SendBuffer.tla (safety and liveness); real worterbuch_client connection over a unix socket to an "
                          "in-process server, handle cloned to 2-4 tasks, every task log explained by an interleaving (Trace_Session, client "
                          "id shared by the task logs), server-side probe after each of the four unsubscribe variants; send buffer run under "
                          "tokio's paused clock on local_client_wrapper with a recording WbApi, observations explained by Trace_Buffer"}
    return {"coverage": cov, "known": known_seen, "violations": violations,
            "assumptions": ["the library connects over the unix socket in half of the scenarios, over TCP and over WebSocket in a quarter each",
                            "acquire_lock, spub and the last-will/grave-goods helpers of the library are not driven",
                            "the send buffer is observed on local_client_wrapper (same connection loop, in-process transport)",
                            "values of `deleted` events of plain subscriptions are not observable through the library (Option::None)"]}


CHECKS["C20"] = c20_check


# ----------------------------------------------------------------------------- C19: orchestrator election
ELECTION_TRACE_CFG = """SPECIFICATION TSpec
CONSTANTS
  Me <- TraceMe
  Peers_ <- TracePeers
  Foreign_ <- TraceForeign
  Later_ <- TraceLater
  Quorum <- TraceQuorum
  MyPrio <- TracePrio
  QuorumTooLow <- TraceTooLow
  EDev = {}
  MaxAhead = @AHEAD@
INVARIANTS CountInv OneProcess NotAccepted
PROPERTY TraceC19
CHECK_DEADLOCK FALSE
"""


def c19_check(prop, tier, seed, replay):
    import orch, hashlib
    vlib.build_harness()
    d = vlib.workdir(prop)
    rnd = random.Random(seed)
    violations = []

    def validate(trace, ahead):
        sub = os.path.join(d, "ve_" + hashlib.md5((trace + str(ahead)).encode()).hexdigest()[:10])
        os.makedirs(sub, exist_ok=True)
        for f in os.listdir(d):
            if f.endswith(".tla"):
                shutil.copy(os.path.join(d, f), sub)
        env = dict(vlib.TRACE_ENV)
        env["TRACE"] = trace
        out = vlib.tlc(sub, "Trace_Election", ELECTION_TRACE_CFG.replace("@AHEAD@", str(ahead)), workers=1, timeout=900, env=env, heap="3g")
        shutil.rmtree(os.path.join(sub, "md"), ignore_errors=True)
        if "Invariant NotAccepted is violated" in out:
            return True, {}
        st, err = vlib.tlc_stats(out), vlib.tlc_error(out)
        if st is None and err is None:
            raise ToolError("TLC gave no result:\n" + out[-3000:])
        if err and not ("Invariant" in err or "Action property" in err or "action property" in err.lower()):
            raise ToolError("TLC evaluation error on election trace:\n" + out[-4000:])
        return False, {"err": err, "states": st["distinct"] if st else 0, "tail": out[-500:]}

    def explain(trace):
        ok, det = validate(trace, 6)
        if not ok and not det.get("err"):
            # the log of a starved harness can lag far behind the process: allow the explanation to run further ahead
            ok, det = validate(trace, 20)
        return ok, det

    def run_config(ic):
        i, cfg, scs = ic
        runs = [orch.run_scenario(cfg, steps, d, f"c{i}_s{k}") for k, steps in enumerate(scs)]
        tr = os.path.join(d, f"tr_c{i}.ndjson")
        orch.write_trace(tr, cfg, runs)
        ok, det = explain(tr)
        bad = None
        if not ok:
            for k, evs in enumerate(runs):
                t1 = os.path.join(d, f"tr_c{i}_s{k}.ndjson")
                orch.write_trace(t1, cfg, [evs])
                ok1, det1 = explain(t1)
                if not ok1:
                    bad = {"config": cfg, "steps": scs[k], "observed": evs, "detail": det1}
                    break
            if bad is None:
                bad = {"config": cfg, "steps": scs, "observed": runs, "detail": det}
        nev = sum(len(r) for r in runs)
        started = sum(1 for r in runs for e in r if e["e"] == "proc" and e["m"]["t"] == "start")
        refused = sum(1 for r in runs if r[-1].get("rc") not in (0, None))
        return {"ok": ok, "bad": bad, "n": nev, "starts": started, "refused": refused}

    def handle(res, tag):
        if not res["ok"]:
            b = res["bad"]
            p = vlib.save_replay(prop, f"{tag}_{len(violations)}", {"property": prop, "kind": "election", **b})
            violations.append({"replay": p, "what": "what the orchestrator process did (datagrams, starts of the server) is not a behaviour of "
                               "Election.tla that satisfies C19: %s; observed %s" % (str(b["detail"])[:300], json.dumps(b["observed"])[:900])})

    if replay:
        pl = json.load(open(replay))
        scs = pl["steps"] if pl["steps"] and isinstance(pl["steps"][0], list) else [pl["steps"]]
        for k in range(5):          # timing differs from run to run
            handle(run_config((k, pl["config"], scs)), "replay")
            if violations:
                break
        return {"known": {}, "violations": violations}

    # 1. every datagram sequence of a hostile environment, every placement of the timeouts (bounded)
    t1 = time.time()
    tot = {"distinct": 0, "generated": 0}
    if not os.environ.get("VERIF_DEV_SKIP_MC"):
        cfgs = ["MC_C19.cfg", "MC_C19_q3.cfg", "MC_C19_low.cfg", "MC_C19_dyn.cfg"] if tier == "quick" else ["MC_C19_thorough.cfg", "MC_C19_q3.cfg", "MC_C19_low.cfg", "MC_C19_dyn.cfg"]
        for c in cfgs:
            out = vlib.tlc(d, "MC_C19", open(os.path.join(vlib.SPEC, c)).read(), workers=8, timeout=3000, heap="8g")
            err, st = vlib.tlc_error(out), vlib.tlc_stats(out)
            if err or not st:
                raise ToolError("model checking of Election (%s) failed: %s\n%s" % (c, err, out[-3000:]))
            tot["distinct"] += st["distinct"]
            tot["generated"] += st["generated"]
    log(f"[{prop}] TLC Election (4 configurations, one with a config file rewritten at run time): {tot['distinct']} distinct states, {tot['generated']} transitions, {time.time()-t1:.0f}s")
    apalache = None
    if tier == "thorough" and not os.environ.get("VERIF_DEV_SKIP_MC"):
        # unbounded datagram histories: IndInv is inductive, and every step from an IndInv state satisfies C19
        # (7 nodes, every quorum 1..7); the two probes must be violated (a step into each role exists)
        ta = time.time()
        apalache = {}
        for init, inv, length, expect in (("EInit", "IndInv", 0, True), ("IndInit", "IndInv", 1, True), ("IndInit", "StepInv", 1, True),
                                          ("IndInit", "NeverLeaderStep", 1, False), ("IndInit", "NeverFollowerStep", 1, False)):
            rc, out = vlib.sh(["timeout", "3000", "apalache-mc", "check", "--cinit=ConstInit", f"--init={init}", "--next=IndNext", f"--inv={inv}",
                               f"--length={length}", "--out-dir=" + os.path.join(d, "apalache"), "Election_ind.tla"], cwd=d, timeout=3100)
            ok = "The outcome is: NoError" in out
            bad = "The outcome is: Error" in out
            if not ok and not bad:
                raise ToolError("apalache gave no verdict:\n" + out[-2000:])
            if ok != expect:
                raise ToolError(f"apalache: {inv} from {init} " + ("holds, but the probe must be violated (vacuous induction)" if ok else "is violated on Election.tla") + "\n" + out[-2500:])
            apalache[f"{init}/{inv}"] = "holds" if ok else "violated (expected)"
        shutil.rmtree(os.path.join(d, "apalache"), ignore_errors=True)
        log(f"[{prop}] Apalache: IndInv inductive, StepInv holds from every IndInv state (7 nodes, quorums 1..7), {time.time()-ta:.0f}s")
    # 2. real orchestrator processes against scripted peers
    t2 = time.time()
    cfgs = orch.gen_configs(rnd, tier)
    per = 4 if tier == "quick" else 12
    work = [(i, c, [orch.gen_steps(rnd, c) for _ in range(per)]) for i, c in enumerate(cfgs)]
    for _i, c, scs in work:
        if c.get("dynamic") and c["peers"]:
            scs[0] = orch.grow_steps(c)      # deterministic: the cluster grows while the node is a candidate
    results = vlib.parallel(run_config, work, nproc=8)
    nev = starts = refused = 0
    for i, r in enumerate(results):
        nev += r["n"]
        starts += r["starts"]
        refused += r["refused"]
        handle(r, f"c{i}")
    expected_refused = sum(per for c in cfgs if c["quorum"] > len(c["peers"]) + 1)
    if refused > expected_refused + max(2, len(cfgs) * per // 10):
        raise ToolError(f"{refused} orchestrator processes exited with an error (expected {expected_refused}): see {d}/orch_*/orch.err")
    log(f"[{prop}] {len(cfgs)} cluster configurations x {per} scripted peer behaviours: {nev} observations, {starts} server starts, "
        f"{refused} processes refused their configuration, {time.time()-t2:.0f}s")
    cov = {"states": max(1, tot["distinct"]), "transitions": max(1, tot["generated"]),
           "traces_validated_against_impl": len(cfgs) * per, "samples": [{"config": work[0][1], "steps": work[0][2][0]}], "exhaustive": False,
           "trace_records_validated": nev, "server_starts_observed": starts, "apalache": apalache,
           "explanation": "TLC exhaustive on Election.tla (phases of the election code, inbox, timeouts as free steps) with C19 as step "
                          "properties; real orchestrator processes (cluster sizes 1-7, default and configured quorums) against scripted UDP "
                          "peers and a stub server executable, behaviour explained by TLC with receive/timeout/heartbeat as inferred steps"}
    return {"coverage": cov, "known": {}, "violations": violations,
            "assumptions": ["loopback UDP delivers in order and without loss", "configuration changes at run time: only the set of peers changes, only without a configured quorum, one new version of the file per process",
                            "priority is configured (not derived from the last-persisted file)",
                            "the orchestrator is built from /repo through the harness' path dependency (bin wborch = main.rs of the orchestrator crate, without jemalloc)"]}


CHECKS["C19"] = c19_check


# ----------------------------------------------------------------------------- C16: aggregator
AGG_TRACE_CFG = """SPECIFICATION TraceSpec
CONSTANTS
  D = 5
  Keys_ = {}
  MaxEv = 100000
  MaxTime = 100000
INVARIANTS NotAccepted ContentInv DelayInv TimerInv
CHECK_DEADLOCK FALSE
"""


def agg_schedules(tier, rnd):
    import itertools
    keys = ["k1", "k2", "k3"]
    scs = []
    # every arrival pattern of up to 3 events on 2 keys with gaps around the interval (5 ms)
    gaps = [0, 2, 5, 6]
    evs = [(k, kd) for k in keys[:2] for kd in ("set", "del")]
    for n in (1, 2, 3):
        for combo in itertools.product(evs, repeat=n):
            for gs in itertools.product(gaps, repeat=n - 1):
                ops = []
                for i, (k, kd) in enumerate(combo):
                    if i:
                        ops.append({"op": "adv", "ms": gs[i - 1]})
                    ops.append({"op": "ev", "kind": kd, "k": k, "v": "v%d" % (i % 2 if n == 3 else i)})
                ops.append({"op": "adv", "ms": 12})
                scs.append(ops)
    nrand = 400 if tier == "quick" else 20000
    for _ in range(nrand):
        ops = []
        for i in range(rnd.randint(2, 10)):
            if rnd.random() < 0.6:
                ops.append({"op": "adv", "ms": rnd.choice([0, 1, 1, 2, 3, 4, 5, 5, 6, 9])})
            burst = rnd.choice([1, 1, 1, 2, 3])
            for b in range(burst):
                # (values repeat: a non-unique subscription delivers a value that is set again)
                ops.append({"op": "ev", "kind": rnd.choice(["set", "set", "del"]), "k": rnd.choice(keys),
                            "v": rnd.choice(["x", "x", "y", "v%d_%d" % (i, b)])})
        ops.append({"op": "adv", "ms": 12})
        scs.append(ops)
    return scs


def c16_check(prop, tier, seed, replay):
    build_s = vlib.build_harness()
    d = vlib.workdir(prop)
    violations = []
    rnd = random.Random(seed)

    def write(path, scs):
        with open(path, "w") as f:
            f.write('{"hdr":true,"d":5}\n')
            for i, ops in enumerate(scs):
                if i:
                    f.write('{"op":"reset"}\n')
                for o in ops:
                    f.write(json.dumps(o) + "\n")

    def validate(tr):
        sub = tr + ".d"
        os.makedirs(sub, exist_ok=True)
        for f in ("Aggregator.tla", "Trace_Aggregator.tla"):
            shutil.copy(os.path.join(d, f), sub)
        env = dict(vlib.TRACE_ENV)
        env["TRACE"] = tr
        out = vlib.tlc(sub, "Trace_Aggregator", AGG_TRACE_CFG, workers=1, timeout=1200, env=env, heap="3g")
        if "Invariant NotAccepted is violated" in out:
            return True, None
        err = vlib.tlc_error(out)
        if err and "Invariant" in err:
            return False, err
        if vlib.tlc_stats(out) is None:
            raise ToolError("TLC failed on aggregator trace:\n" + out[-3000:])
        return False, "no behaviour of Aggregator.tla produces the recorded batches at the recorded times"

    def run(scs, tag):
        req = os.path.join(d, f"req_{tag}.ndjson")
        tr = os.path.join(d, f"tr_{tag}.ndjson")
        write(req, scs)
        vlib.run_harness(["agg-run", req, tr])
        ok, why = validate(tr)
        return ok, why, sum(1 for _ in open(tr)) - 1

    def locate(scs, tag):
        # bisect to a failing schedule (the schedules are independent: a reset lies between them)
        lo, hi = 0, len(scs)
        while hi - lo > 1:
            mid = (lo + hi) // 2
            ok, why, _ = run(scs[lo:mid], f"{tag}_bis")
            if not ok:
                hi = mid
            else:
                lo = mid
        ok, why, _ = run([scs[lo]], f"{tag}_one")
        if not ok:
            return scs[lo], why
        return scs, "only the combination fails"

    if replay:
        pl = json.load(open(replay))
        if pl.get("kind") == "live-aggregation":
            scs_ = pl["scenario"] if isinstance(pl["scenario"], list) else [pl["scenario"]]
            for k in range(5):
                path = os.path.join(d, f"sc_replay{k}.ndjson")
                with open(path, "w") as f:
                    f.write(json.dumps({"hdr": True, "meaning": {}}) + "\n")
                    for s_ in scs_:
                        f.write(json.dumps(s_) + "\n")
                raw, tr = os.path.join(d, f"raw_replay{k}.ndjson"), os.path.join(d, f"tr_replay{k}.ndjson")
                vlib.run_harness(["sock-run", path, raw, os.path.join(d, "sock")], timeout=900)
                sess.postprocess(raw, tr)
                r = sess.validate(d, tr, vlib.known_flags(), 900)
                if r["status"] == "violation":
                    violations.append({"replay": replay, "what": str(r.get("detail"))[:400]})
                    break
            return {"known": {}, "violations": violations}
        ok, why, _ = run([pl["schedule"]], "replay")
        if not ok:
            violations.append({"replay": replay, "what": why})
        return {"known": {}, "violations": violations}

    t1 = time.time()
    out = vlib.tlc(d, "Aggregator", open(os.path.join(vlib.SPEC, "MC_C16.cfg" if tier == "quick" else "MC_C16_thorough.cfg")).read(),
                   workers=8, timeout=3000, heap="8g")
    err, st = vlib.tlc_error(out), vlib.tlc_stats(out)
    if err or not st:
        raise ToolError("model checking of Aggregator failed: %s\n%s" % (err, out[-3000:]))
    log(f"[{prop}] TLC Aggregator: {st['distinct']} distinct states, {st['generated']} transitions, {time.time()-t1:.0f}s")
    if tier == "thorough":
        out2 = vlib.tlc(d, "Aggregator", open(os.path.join(vlib.SPEC, "MC_C16_live.cfg")).read(), workers=8, timeout=3000, heap="8g")
        if vlib.tlc_error(out2):
            raise ToolError("liveness check of Aggregator failed:\n" + out2[-3000:])
        log(f"[{prop}] TLC liveness (every event eventually sent, weak fairness): ok")
    scs = agg_schedules(tier, rnd)
    nb = 8
    t2 = time.time()
    res = vlib.parallel(lambda ib: (ib[0], run(scs[ib[0]::nb], f"b{ib[0]}")), [(i, None) for i in range(nb)])
    nrec = 0
    for i, (ok, why, n) in res:
        nrec += n
        if not ok:
            ops, why2 = locate(scs[i::nb], f"b{i}")
            p = vlib.save_replay(prop, f"sched_{len(violations)}", {"property": prop, "kind": "aggregator-schedule", "schedule": ops, "why": why2})
            violations.append({"replay": p, "what": why2})
    log(f"[{prop}] {len(scs)} schedules on the real PStateAggregator (paused clock), {nrec} records validated, {time.time()-t2:.0f}s")
    # aggregated subscriptions on live sessions (the wiring in the protocol handler: snapshot first, then the
    # aggregator): what the subscriber receives must be, key by key, what the specification delivered
    t3 = time.time()
    known = vlib.known_flags()
    lscs = sess.gen_c16_live(rnd, tier)
    nlive = 0

    def run_live(ib):
        i, part = ib
        path = os.path.join(d, f"sc_live{i}.ndjson")
        with open(path, "w") as f:
            f.write(json.dumps({"hdr": True, "meaning": {}}) + "\n")
            for s_ in part:
                f.write(json.dumps(s_) + "\n")
        raw = os.path.join(d, f"raw_live{i}.ndjson")
        vlib.run_harness(["sock-run", path, raw, os.path.join(d, "sock")], timeout=1800)
        tr = os.path.join(d, f"tr_live{i}.ndjson")
        n = sess.postprocess(raw, tr)
        r = sess.validate(d, tr, known, 900)
        r["n"], r["scs"], r["trace"] = n, part, tr
        return r
    for i, r in enumerate(vlib.parallel(run_live, [(i, lscs[i::4]) for i in range(4) if lscs[i::4]])):
        nlive += r["n"]
        if r["status"] == "violation":
            bad = None
            for k, s_ in enumerate(r["scs"]):
                r1 = run_live((f"{i}_{k}", [s_]))
                if r1["status"] == "violation":
                    bad = (s_, r1)
                    break
            p = vlib.save_replay(prop, f"live_{len(violations)}", {"property": prop, "kind": "live-aggregation", "scenario": bad[0] if bad else r["scs"],
                                                                     "detail": (bad[1] if bad else r).get("detail")})
            violations.append({"replay": p, "what": "what an aggregated subscription received on a live session is not, key by key, what the "
                               "specification delivers to it: %s" % str((bad[1] if bad else r).get("detail", {}))[:400]})
    log(f"[{prop}] {len(lscs)} live-session scenarios with aggregated subscriptions, {nlive} records, {time.time()-t3:.0f}s")
    cov = {"states": st["distinct"], "transitions": st["generated"], "traces_validated_against_impl": len(scs),
           "samples": [scs[5], scs[-1], lscs[0]], "exhaustive": True, "trace_records_validated": nrec + nlive, "live_session_scenarios": len(lscs),
           "explanation": "TLC exhaustive on the aggregator step machine (content, delay and timer invariants) for all arrival sequences within "
                          "the bounds; the real PStateAggregator is driven on tokio's paused clock and every batch must be sent at exactly the "
                          "virtual time at which some behaviour of the specification sends it"}
    return {"coverage": cov, "known": {}, "violations": violations,
            "assumptions": ["virtual time (tokio paused clock), 1 ms steps; processing takes no virtual time",
                            "the client connection always takes the batches (channel never full)",
                            "live sessions: content and order per key, one kind and no key twice per batch; the timing of the batches is checked on the aggregator alone"]}


CHECKS["C16"] = c16_check


# ----------------------------------------------------------------------------- C11 / C12: cluster
CLUSTER_TRACE_CFG = """SPECIFICATION TraceSpec
CONSTANTS
  Dev = @DEV@
  Meaning <- TraceMeaning
  Followers = {"f1", "f2"}
  CAlphabet = {}
  MaxChan = 100000
@INV@
POSTCONDITION TraceAccepted
CHECK_DEADLOCK FALSE
"""
CLUSTER_MEANING = {"gg1": {"gg": [["a", "#"]], "lw": []}, "gg2": {"gg": [["b"], ["k", "?"]], "lw": []},
                   "lw1": {"gg": [], "lw": [{"k": ["b"], "v": "w"}]}, "lw2": {"gg": [], "lw": [{"k": ["k", "cas"], "v": "w2"}, {"k": ["n"], "v": "w3"}]}}


def cluster_scenarios(tier, rnd, promote):
    # (the last two are ordinary user keys that merely look like the system prefix)
    keys = [["a"], ["a", "b"], ["b"], ["k", "cas"], ["k", "x"], ["n"], ["$SYSTEM", "load"], ["$SYSx"]]
    n = (6 if tier == "quick" else 120)
    scs = []
    for _ in range(n):
        ops, conn, joined = [], [], []
        clients = ["c1", "c2", "c3"]
        fs = ["f1", "f2"] if rnd.random() < 0.3 else ["f1"]
        join_at = {f: rnd.randint(0, 14) for f in fs}
        steps = rnd.randint(12, 30)
        for i in range(steps):
            for f in fs:
                if join_at[f] == i:
                    ops.append({"op": "join", "f": f})
                    joined.append(f)
            r = rnd.random()
            c = rnd.choice(clients)
            if c not in conn:
                conn.append(c)
                ops.append({"op": "req", "r": {"op": "connect", "c": c, "proto": "TCP", "addr": "j:null"}})
                continue
            k = rnd.choice(keys)
            if r < 0.3:
                q = {"op": "set", "key": k, "val": rnd.choice(["v1", "v2", "v3"]), "c": c}
            elif r < 0.45:
                q = {"op": "cset", "key": k, "val": rnd.choice(["v1", "v2"]), "ver": rnd.choice([0, 0, 1, 2, 5]), "c": c}
            elif r < 0.53:
                q = {"op": "delete", "key": k, "c": c}
            elif r < 0.6:
                q = {"op": "pdelete", "pat": rnd.choice([["a", "#"], ["k", "?"], ["?"], ["a", "?"], ["$SYSTEM", "?"]]), "c": c}
            elif r < 0.68:
                q = {"op": "set", "key": ["$SYS", "clients", c, "graveGoods"], "val": rnd.choice(["gg1", "gg2"]), "c": c}
            elif r < 0.76:
                q = {"op": "set", "key": ["$SYS", "clients", c, "lastWill"], "val": rnd.choice(["lw1", "lw2"]), "c": c}
            elif r < 0.82:
                e = rnd.choice([{"k": "cas", "v": "v7", "n": rnd.choice([0, 2, 7])}, {"k": "plain", "v": "v8", "n": 0}])
                q = {"op": "import", "tree": [{"p": [], "e": {"k": "none", "v": "", "n": 0}}, {"p": ["k"], "e": {"k": "none", "v": "", "n": 0}},
                                               {"p": ["k", "cas"], "e": e}]}
            elif r < 0.92:
                conn.remove(c)
                q = {"op": "disconnect", "c": c}
            else:
                q = {"op": "set", "key": ["$SYS", "x"], "val": "v1", "c": c}      # refused on the leader, never forwarded
            ops.append({"op": "req", "r": q})
            if joined and rnd.random() < 0.25:
                ops += [{"op": "sync"}, {"op": "probe"}]
                if rnd.random() < 0.3:
                    ops.append({"op": "fwrite", "f": rnd.choice(joined)})
        for f in fs:
            if f not in joined:
                ops.append({"op": "join", "f": f})
                joined.append(f)
        ops += [{"op": "sync"}, {"op": "probe"}]
        if promote:
            ops.append({"op": "promote", "f": rnd.choice(joined)})
        scs.append(ops)
    return scs


def cluster_check(promote):
    def run(prop, tier, seed, replay):
        known = [f for f in vlib.known_flags()]
        build_s = vlib.build_harness()
        d = vlib.workdir(prop)
        known_seen, violations = {}, []
        rnd = random.Random(seed)
        inv = "INVARIANTS C11Inv C12Inv"

        def run_files(batches, tag):
            def one(ib):
                i, scs = ib
                req = os.path.join(d, f"req_{tag}{i}.ndjson")
                tr = os.path.join(d, f"tr_{tag}{i}.ndjson")
                with open(req, "w") as f:
                    f.write(json.dumps({"hdr": True, "meaning": CLUSTER_MEANING}) + "\n")
                    for j, ops in enumerate(scs):
                        if j:
                            f.write('{"op":"reset"}\n')
                        for o in ops:
                            f.write(json.dumps(o) + "\n")
                    f.write('{"op":"reset","final":true}\n')
                vlib.run_harness(["cluster-run", req, tr, os.path.join(d, f"dirs_{tag}{i}")], timeout=3000)
                # the harness ends with a reset record; drop trailing resets
                lines = open(tr).read().splitlines()
                while lines and lines[-1].startswith('{"op":"reset"'):
                    lines.pop()
                open(tr, "w").write("\n".join(lines) + "\n")
                r = vlib.validate(d, "Trace_Cluster", CLUSTER_TRACE_CFG, tr, inv, known, 1200)
                r["req"], r["trace"], r["n"], r["scs"] = req, tr, len(lines) - 1, scs
                return r
            return vlib.parallel(one, list(enumerate(batches)), nproc=4)

        def handle(res, tag):
            for r in res:
                if r["status"] == "known":
                    for f in r["flags"]:
                        known_seen[f] = known_seen.get(f, 0) + 1
                elif r["status"] == "violation":
                    det = r.get("detail", {})
                    recno = rejected_recno(det)
                    payload = {"property": prop, "kind": "cluster-scenario", "detail": det}
                    if recno:
                        tl = open(r["trace"]).read().splitlines()
                        nres = sum(1 for x in tl[1:recno] if x.startswith('{"op":"reset"'))
                        payload["scenario"] = r["scs"][nres] if nres < len(r["scs"]) else r["scs"]
                        payload["observed_tail"] = [json.loads(x) for x in tl[max(1, recno - 6):recno]]
                    else:
                        payload["scenario"] = r["scs"][0]
                    p = vlib.save_replay(prop, f"{tag}_{len(violations)}", payload)
                    violations.append({"replay": p, "what": det.get("rejected") or det.get("error")})

        if replay:
            pl = json.load(open(replay))
            res = run_files([[pl["scenario"]]], "replay")
            handle(res, "replay")
            return {"known": known_seen, "violations": violations}

        t1 = time.time()
        st = {"distinct": 0, "generated": 0}
        if not os.environ.get("VERIF_DEV_SKIP_MC"):
            out = vlib.tlc(d, "MC_C11", mc_cfg("MC_C11.cfg" if tier == "quick" else "MC_C11_thorough.cfg", []), workers=8, timeout=6000, heap="12g")
            err, st = vlib.tlc_error(out), vlib.tlc_stats(out)
            if err or not st:
                raise ToolError("model checking of the ideal specification failed: %s\n%s" % (err, out[-3000:]))
        log(f"[{prop}] TLC Cluster (intended design): {st['distinct']} distinct states, {st['generated']} transitions, {time.time()-t1:.0f}s")
        scs = cluster_scenarios(tier, rnd, promote)
        nb = 4
        t2 = time.time()
        res = run_files([scs[i::nb] for i in range(nb) if scs[i::nb]], "b")
        handle(res, "b")
        nrec = sum(r["n"] for r in res)
        for i in range(nb):
            shutil.rmtree(os.path.join(d, f"dirs_b{i}"), ignore_errors=True)
        log(f"[{prop}] {len(scs)} leader/follower histories on real in-process servers, {nrec} records validated, {time.time()-t2:.0f}s")
        cov = {"states": max(1, st["distinct"]), "transitions": max(1, st["generated"]), "traces_validated_against_impl": len(scs),
               "samples": [scs[0][:14]], "exhaustive": False, "trace_records_validated": nrec,
               "explanation": "TLC exhaustive on the cluster model (all join points, all interleavings of forwarding and applying, promotion at every "
                              "quiescent point) within the bounds; random leader histories on real servers connected through the TCP sync port, "
                              "quiescence by marker key, read-back of both sides validated by TLC against Cluster.tla"}
        return {"coverage": cov, "known": known_seen, "violations": violations,
                "assumptions": ["leader and followers run in one process (spawn_worterbuch), connected through a real TCP sync port on 127.0.0.1",
                                "client sessions are what tcp.rs makes of them: connected / requests under that id / disconnected on the WbApi handle",
                                "a follower is configured exactly as the binary configures it from the role flags (Config::new(Some(Args{..})))",
                                "leader loss only at quiescent points (marker reached every follower)"]}
    return run


CHECKS["C11"] = cluster_check(False)
CHECKS["C12"] = cluster_check(True)


# ----------------------------------------------------------------------------- C18: ReDB
REDB_TRACE_CFG = """SPECIFICATION TraceSpec
CONSTANTS
  Dev = @DEV@
  Meaning <- TraceMeaning
@INV@
POSTCONDITION TraceAccepted
CHECK_DEADLOCK FALSE
"""


def redb_scenarios(tier, rnd):
    n = 40 if tier == "quick" else 1200
    base = gens.gen_mixed({"connect": 2, "gg": 3, "lw": 3, "set": 30, "cset": 16, "delete": 10, "pdelete": 6, "import": 3, "disconnect": 2},
                          nclients=2, need_connect=True)
    scs, meaning = [], None
    for i in range(n):
        hdr, reqs = base(rnd, rnd.randint(3, 25))
        if meaning is None:
            meaning = hdr["meaning"]
            # one meaning table for the whole file: last wills on keys of their own, patterns from a fixed pool
            for t in range(5):
                meaning["lw%d" % t] = {"gg": [], "lw": [{"k": ["lwk", "t%d" % t], "v": "w%d" % t}]}
                # (some grave goods cover willed keys: bury first, publish the wills second)
                meaning["gg%d" % t] = {"gg": [[["a", "#"], ["b", "?"], ["c"], ["a", "b"], ["?", "a"]][t]] + ([["lwk", "#"]] if t in (1, 3) else []), "lw": []}
        ops = []
        burst = rnd.random() < 0.3
        if burst:
            # a tiny queue between core and writer, and no pause: the core has to wait for the writer
            ops.append({"op": "config", "channel_buffer_size": 2})
            hdr2, more = base(rnd, rnd.randint(30, 60))
            reqs = reqs + [q for q in more if q["op"] in ("set", "cset", "delete")]
        for r in reqs:
            if r["op"] in ("set", "cset") and (r.get("val") == "j:null" or "Cas" in r.get("val", "")):
                r = dict(r, val="v1")     # D_NULL_RELOAD / D_CAS_SHAPED are C09's subject
            if r["op"] == "set" and r["key"][:2] == ["$SYS", "clients"] and r["key"][-1] == "graveGoods" and r["c"] != "c1":
                continue        # grave goods of one client only (order of application across clients is unspecified)
            ops.append({"op": "req", "r": r})
            if not burst and rnd.random() < 0.25:
                ops.append({"op": "yield", "ms": rnd.choice([1, 1, 2, 5])})
        ops.append({"op": "stop", "clean": rnd.random() < (0.7 if burst else 0.3)})
        scs.append(ops)
    return meaning, scs


def c18_check(prop, tier, seed, replay):
    known = vlib.known_flags()
    build_s = vlib.build_harness()
    d = vlib.workdir(prop)
    known_seen, violations = {}, []
    rnd = random.Random(seed)

    def run_files(meaning, batches, tag):
        def one(ib):
            i, scs = ib
            req = os.path.join(d, f"req_{tag}{i}.ndjson")
            tr = os.path.join(d, f"tr_{tag}{i}.ndjson")
            with open(req, "w") as f:
                f.write(json.dumps({"hdr": True, "meaning": meaning}) + "\n")
                for j, ops in enumerate(scs):
                    if j:
                        f.write('{"op":"reset"}\n')
                    for o in ops:
                        f.write(json.dumps(o) + "\n")
            vlib.run_harness(["redb-run", req, tr, os.path.join(d, f"dirs_{tag}{i}")], timeout=3000)
            r = vlib.validate(d, "Trace_Redb", REDB_TRACE_CFG, tr, "", known, 1200)
            r["req"], r["trace"], r["n"], r["scs"] = req, tr, sum(1 for _ in open(tr)) - 1, scs
            return r
        return vlib.parallel(one, list(enumerate(batches)), nproc=6)

    def handle(res, meaning, tag):
        for r in res:
            if r["status"] == "known":
                for f in r["flags"]:
                    known_seen[f] = known_seen.get(f, 0) + 1
            elif r["status"] == "violation":
                det = r.get("detail", {})
                recno = rejected_recno(det)
                payload = {"property": prop, "kind": "redb-scenario", "detail": det, "meaning": meaning}
                tl = open(r["trace"]).read().splitlines()
                nres = sum(1 for x in tl[1:recno or 1] if x.startswith('{"op":"reset"'))
                payload["scenario"] = r["scs"][nres] if nres < len(r["scs"]) else r["scs"][0]
                if recno:
                    payload["observed_tail"] = [json.loads(x) for x in tl[max(1, recno - 4):recno]]
                p = vlib.save_replay(prop, f"{tag}_{len(violations)}", payload)
                violations.append({"replay": p, "what": det.get("rejected") or det.get("error")})

    if replay:
        pl = json.load(open(replay))
        for k in range(3):
            res = run_files(pl["meaning"], [[pl["scenario"]]], f"replay{k}")
            handle(res, pl["meaning"], "replay")
            if violations:
                break
        return {"known": known_seen, "violations": violations}

    t1 = time.time()
    out = vlib.tlc(d, "Redb", open(os.path.join(vlib.SPEC, "MC_C18.cfg" if tier == "quick" else "MC_C18_thorough.cfg")).read(), workers=8, timeout=3000, heap="8g")
    err, st = vlib.tlc_error(out), vlib.tlc_stats(out)
    if err or not st:
        raise ToolError("model checking of Redb failed: %s\n%s" % (err, out[-3000:]))
    log(f"[{prop}] TLC Redb (intended design): {st['distinct']} distinct states, {st['generated']} transitions, {time.time()-t1:.0f}s")
    meaning, scs = redb_scenarios(tier, rnd)
    nb = 6
    t2 = time.time()
    res = run_files(meaning, [scs[i::nb] for i in range(nb) if scs[i::nb]], "b")
    handle(res, meaning, "b")
    nrec = sum(r["n"] for r in res)
    for i in range(nb):
        shutil.rmtree(os.path.join(d, f"dirs_b{i}"), ignore_errors=True)
    log(f"[{prop}] {len(scs)} histories on a real server with the ReDB backend (abrupt and clean stops), {nrec} records validated, {time.time()-t2:.0f}s")
    cov = {"states": st["distinct"], "transitions": st["generated"], "traces_validated_against_impl": len(scs),
           "samples": [scs[0][:10]], "exhaustive": False, "trace_records_validated": nrec,
           "explanation": "TLC exhaustive on the writer/batcher/crash/load model; real servers with the ReDB backend are stopped abruptly (runtime dropped) "
                          "or cleanly after seeded histories with random yields; TLC decides whether some prefix of the applied changes explains the state "
                          "the second server recovered"}
    return {"coverage": cov, "known": known_seen, "violations": violations,
            "assumptions": ["an abrupt stop drops the runtime: the writer stops at an await point or between transactions; a kill inside a redb commit is redb's own atomicity and trusted",
                            "changes of one request reach the writer in unspecified order: any subset of them may be present at the cut",
                            "grave goods of one client only"]}


CHECKS["C18"] = c18_check
