"""Socket-level scenarios: post-processing of `wbverif sock-run` output into the trace
format of Trace_Session.tla, TLC validation, and scenario generators."""
import json, os, re
import vlib

INF = 10 ** 12
GRACE_MS = 500      # a session's end is processed by the core within this time after its connection ended

SESSION_TRACE_CFG = """SPECIFICATION TraceSpec
CONSTANTS
  Dev = @DEV@
  Meaning <- TraceMeaning
  ExtMon <- SessExtMon
  CheckRef = @REF@
INVARIANT NotAccepted
CHECK_DEADLOCK FALSE
"""


ENV_NAMES = {"version", "license", "source-code", "uptime", "store", "protocolVersion", "name"}


def env_key(k):
    """server-maintained information under $SYS (version, uptime, value count ...): it changes with
    time and with the build, it is environment, not behaviour - dropped from replies and events.
    $SYS/clients/... is behaviour and stays."""
    return bool(k) and k[0] == "$SYS" and (len(k) < 2 or k[1] not in ("clients", "subscriptions", "locks"))


ENV_TREE = {("$SYS",): ENV_NAMES, ("$SYS", "store"): {"mode", "values"}, ("$SYS", "store", "values"): {"count"}}


def strip_env(rep, parent=None):
    if not isinstance(rep, dict):
        return rep
    if rep.get("t") == "kvs":
        rep = dict(rep, kvs=[kv for kv in rep["kvs"] if not env_key(kv[0])])
    if rep.get("t") == "list" and parent is not None:
        # children of the server-maintained nodes under $SYS, asked for directly or through wildcards
        drop = set()
        for node, names in ENV_TREE.items():
            if len(node) == len(parent) and all(q in (e, "?") for q, e in zip(parent, node)):
                drop |= names
        rep = dict(rep, list=[x for x in rep["list"] if x not in drop])
    return rep


def postprocess(src, dst):
    """returns number of records (steps) the validation has to explain"""
    lines = open(src).read().splitlines()
    hdr = json.loads(lines[0])
    out = [hdr]
    total = 0
    for line in lines[1:]:
        sc = json.loads(line)
        if "sessions" not in sc:
            raise vlib.ToolError("harness scenario failed: " + line[:300])
        sess = {}
        cids = {}
        for name, v in sc["sessions"].items():
            log = []
            # several task logs can share the connection of one client-library handle
            cid = v.get("cid", name) if v.get("cid") else name
            cids[name] = cid
            if v.get("welcome"):
                op = {"op": "open", "c": cid, "inv": v.get("open_inv", 0), "ret": v.get("open_ret", 0)}
                if v.get("switched") is not None:
                    op["switched"] = v["switched"]      # the client library's handshake switched the protocol version
                log.append(op)
            closed = False
            # upper bound (logical time) for the processing of this session's end by the core, see below
            end_bound = INF
            if v.get("closed_ms") is not None:
                later_ = [r_["inv"] for v2 in sc["sessions"].values() for r_ in v2["log"]
                          if r_.get("inv_ms") is not None and r_["inv_ms"] >= v["closed_ms"] + GRACE_MS and "inv" in r_]
                if later_:
                    end_bound = min(later_) - 0.5
            for r in v["log"]:
                r = dict(r)
                r["c"] = cid
                if r["op"] == "close":
                    log.append({"op": "closed", "c": cid, "inv": r.get("inv", 0), "ret": end_bound})
                    closed = True
                    continue
                if r["op"] == "acquire":
                    r["ret"] = INF          # its confirmation comes with the grant, not with the request
                if "ret" not in r:
                    r["ret"] = INF
                r.pop("wait", None)
                if "rep" in r:
                    r["rep"] = strip_env(r["rep"], r.get("parent", r.get("pat")) if r.get("op") in ("ls", "pls") else None)
                log.append(r)
            # a session whose final round trip stayed unanswered is dead for the server even if the socket
            # was not closed (over TCP the connection of an ended session stays open while subscription
            # forwarders still hold its sender)
            dead = bool(log) and log[-1].get("sync") and log[-1].get("rep", {}).get("t") == "none"
            if (v.get("closed") or dead) and not closed:
                # the server ended the session: that happened when it read the first line it did not
                # answer; what the harness sent afterwards went nowhere
                # Where did the server end the session?  (1) right after a refused authorization (answered, then
                # closed); (2) at the first record of the trailing run of unanswered records - a pending
                # acquire-lock request is legitimately unanswered, so for a session that may use the server
                # (no authorization required, or authorized) the run's first record that is not an acquire.
                def none(r_):
                    return r_.get("rep", {}).get("t") == "none"
                start = len(log)
                while start > 0 and none(log[start - 1]) and log[start - 1].get("op") != "open":
                    start -= 1
                last_answered = log[start - 1] if start > 0 else None
                may_use = (not sc.get("auth_required")) or any(r_.get("op") == "auth" and r_.get("rep", {}).get("t") == "ok" for r_ in log)
                if last_answered is not None and last_answered.get("op") == "auth" and last_answered.get("rep", {}).get("t") == "err":
                    cands = [start - 1]
                elif start >= len(log):
                    cands = [len(log) - 1]
                else:
                    # candidates: behind every leading acquire of the run, and behind its first other record
                    cands = []
                    for i in range(start, len(log)):
                        cands.append(i)
                        if log[i].get("op") != "acquire":
                            break
                # When was the session's end processed by the server?  Not before the connection's end was seen;
                # and - the server ends the session in its core right after it drops the connection - not later
                # than GRACE_MS afterwards: requests other sessions sent after that come after the session's end.
                bound = end_bound
                # srv: the SERVER ended this session - the specification must have a reason for that
                # (never before the record was sent: the harness' final round trip on a session that is long dead
                #  is sent after everything else)
                for i in range(start, cands[-1] + 1):
                    if none(log[i]):
                        log[i]["ret"] = max(bound, log[i].get("inv", 0))   # what ended the session had been handled by then as well
                for n_, idx in enumerate(reversed(cands)):
                    inv_ = log[idx].get("inv", 0) if log else 0
                    m_ = {"op": "closed", "c": cid, "srv": True, "inv": inv_, "ret": max(bound, inv_)}
                    if n_ == 0:
                        m_["last"] = True
                    log.insert(idx + 1, m_)
            sess[name] = log
        # real-time order: a record needs every record of another session that returned before it was sent
        for name, log in sess.items():
            for r in log:
                need = {}
                for other, olog in sess.items():
                    if other == name:
                        continue
                    n = 0
                    for q in olog:
                        if q["ret"] < r["inv"]:
                            n += 1
                        else:
                            break
                    if n:
                        need[other] = n
                r["need"] = need
        for log in sess.values():
            for r in log:
                r.pop("inv", None)
                r.pop("ret", None)
                r.pop("inv_ms", None)
        streams = {}
        for k, evs in sc["streams"].items():
            lst = []
            for e in evs:
                kvs = [[kv[0] if kv[0] is not None else [], kv[1]] for kv in e["kvs"] if not (kv[0] and env_key(kv[0]))]
                if kvs or not e["kvs"]:
                    ev = {"t": e["t"], "kvs": kvs}
                    if e.get("nov"):
                        ev["nov"] = True       # the value of this event was not observable
                    lst.append(ev)
            streams[k] = lst
        # aggregated pattern subscriptions: their streams are compared key by key (Trace_Session: Aggs)
        aggs = sorted({"%s:%s" % (cids[name], r["tid"]) for name, log in sess.items() for r in log
                       if r.get("op") == "psub" and r.get("agg") is not None and r.get("rep", {}).get("t") == "ok"})
        for x in aggs:
            streams.setdefault(x, [])
        # (flattened here, once: <<kind, key, value>> per recorded event, in order)
        aggflat = {x: [[e["t"], kv[0], kv[1]] for e in streams[x] for kv in e["kvs"]] for x in aggs}
        total += sum(len(l) for l in sess.values()) + 1
        out.append({"sessions": {k: ({"log": v, "cid": cids[k]} if cids[k] != k else {"log": v}) for k, v in sess.items()},
                    "streams": streams, "aggs": aggs, "aggflat": aggflat, "extmon": bool(sc.get("extmon")), "proto": sc.get("proto", "UNIX"),
                    "exact": sc.get("exact", []), "extra": sc.get("extra", []),
                    "auth_required": bool(sc.get("auth_required"))})
    with open(dst, "w") as f:
        for o in out:
            f.write(json.dumps(o) + "\n")
    return total


def validate_once(d, trace, flags, check_ref, timeout=600):
    cfg = SESSION_TRACE_CFG.replace("@DEV@", vlib.dev_set(flags)).replace("@REF@", "TRUE" if check_ref else "FALSE")
    import hashlib, shutil
    sub = os.path.join(d, "vs_" + hashlib.md5((trace + ",".join(flags) + str(check_ref)).encode()).hexdigest()[:10])
    os.makedirs(sub, exist_ok=True)
    for f in os.listdir(d):
        if f.endswith(".tla"):
            shutil.copy(os.path.join(d, f), sub)
    env = dict(vlib.TRACE_ENV)
    env["TRACE"] = trace
    out = vlib.tlc(sub, "Trace_Session", cfg, workers=1, timeout=timeout, env=env, heap="4g")
    shutil.rmtree(os.path.join(sub, "md"), ignore_errors=True)
    if "Parsing or semantic analysis failed" in out or "*** Errors:" in out:
        raise vlib.ToolError("Trace_Session does not parse:\n" + out[-3000:])
    if "Invariant NotAccepted is violated" in out:
        used = []
        for line in out.splitlines():
            if line.startswith('"DEV-USED'):
                used = sorted(set(re.findall(r"D_[A-Z_]+", line)))
        return True, {"used": used}
    st = vlib.tlc_stats(out)
    err = vlib.tlc_error(out)
    if st is None and err is None:
        raise vlib.ToolError("TLC gave no result:\n" + out[-3000:])
    if err and ("unexpected exception" in out or "Attempted" in out or "evaluating" in out) and "Invariant" not in (err or ""):
        # an evaluation error of the spec is a tool problem, not a verdict
        raise vlib.ToolError("TLC evaluation error on session trace:\n" + out[-4000:])
    m = re.search(r"The depth of the complete state graph search is (\d+)", out)
    return False, {"depth": int(m.group(1)) if m else None, "states": st["distinct"] if st else 0, "tail": out[-800:]}


def validate(d, trace, known, timeout=600):
    ok, det = validate_once(d, trace, [], True, timeout)
    if ok:
        return {"status": "ok", "flags": []}
    if known:
        ok2, det2 = validate_once(d, trace, known, False, timeout)
        if ok2:
            return {"status": "known", "flags": det2["used"], "detail_ideal": det}
        return {"status": "violation", "detail": det2, "detail_ideal": det}
    return {"status": "violation", "detail": det}


# ----------------------------------------------------------------------------- scenario generators
KEYS = [["a"], ["a", "b"], ["a", "c"], ["b"], ["b", "b"], ["c", "d", "e"]]
VALS = ["v1", "v2", "v3", 'j:{"x":1}', "j:7"]
GARBAGE = ["this is not json", "{\"set\": 5}", "{\"frobnicate\":{\"transactionId\":1}}", "{\"get\":{\"transactionId\":1}}",
           "{\"set\":{\"transactionId\":18446744073709551616,\"key\":\"a\",\"value\":1}}", "[]", "\"str\"",
           "{\"get\":{\"transactionId\":1,\"key\":\"a\\u0000b\"}", "null", "{\"pGet\":{\"transactionId\":-1,\"requestPattern\":\"#\"}}"]


def pat_of(rnd, k, illegal=0.1):
    p = list(k)
    for i in range(len(p)):
        if rnd.random() < 0.3:
            p[i] = "?"
    r = rnd.random()
    if r < 0.4:
        p = p[:rnd.randint(0, len(p))] + ["#"]
    elif r < 0.4 + illegal and len(p) >= 2:
        p[0] = "#"
    return p


def rand_request(rnd, name, tids, subs, lss, pubs, v1=True, odd=False):
    """one request item of the full v0/v1 alphabet with valid and invalid arguments"""
    def tid():
        tids[0] += 1
        return tids[0]
    k = rnd.choice(KEYS)
    if odd and rnd.random() < 0.3:
        k = rnd.choice([[""], ["$SYS", "x"], ["a", "", ""], ["?"], ["a", "#", "b"], ["x" * 300], ["$SYS", "clients", name, "clientName"]])
    ops = ["get", "pget", "set", "set", "delete", "pdelete", "publish", "spubinit", "spub", "sub", "psub", "unsub",
           "subls", "subls", "unsubls", "ls", "pls"]
    if v1:
        ops += ["cget", "cset", "cset", "lock", "release", "acquire"]
    if odd:
        ops += ["transform"]
    op = rnd.choice(ops)
    it = {"op": op, "c": name}
    if op in ("get", "cget", "delete", "lock", "release", "acquire", "transform"):
        it.update(key=k, tid=tid())
    elif op == "set":
        it.update(key=k, val=rnd.choice(VALS), tid=tid())
    elif op == "cset":
        it.update(key=k, val=rnd.choice(VALS), ver=rnd.choice([0, 0, 1, 1, 2, 5]), tid=tid())
    elif op in ("pget", "pdelete"):
        it.update(pat=pat_of(rnd, k), tid=tid())
    elif op == "publish":
        it.update(key=k, val=rnd.choice(VALS), tid=tid())
    elif op == "spubinit":
        t = tid()
        pubs.append(t)
        it.update(key=k, tid=t)
    elif op == "spub":
        it.update(val=rnd.choice(VALS), tid=rnd.choice(pubs) if pubs and rnd.random() < 0.8 else 999)
    elif op == "sub":
        t = tid()
        subs.append(t)
        it.update(key=k, unique=rnd.random() < 0.5, live=rnd.random() < 0.4, tid=t)
    elif op == "psub":
        t = tid()
        subs.append(t)
        it.update(pat=pat_of(rnd, k, illegal=0.05), unique=rnd.random() < 0.5, live=rnd.random() < 0.4, tid=t)
        if v1 and rnd.random() < 0.3:
            it["agg"] = rnd.choice([1, 5, 20])          # aggregated: events batched over that many milliseconds
    elif op == "unsub":
        it.update(tid=subs.pop(rnd.randrange(len(subs))) if subs and rnd.random() < 0.8 else 998)
    elif op == "subls":
        t = tid()
        lss.append(t)
        # (the root is a parent like any other - and the one with its own code paths)
        it.update(parent=[] if rnd.random() < 0.35 else k[:rnd.randint(0, len(k))], tid=t)
    elif op == "unsubls":
        it.update(tid=lss.pop(rnd.randrange(len(lss))) if lss and rnd.random() < 0.8 else 997)
    elif op == "ls":
        it.update(parent=k[:rnd.randint(0, len(k))], tid=tid())
    elif op == "pls":
        p = pat_of(rnd, k)
        it.update(pat=p[:rnd.randint(0, len(p))], tid=tid())
    return it


def rounds_scenario(rnd, nsess, nrounds, per_round, mk, auth=None, first=None):
    """sessions proceed in rounds separated by barriers; inside a round requests are pipelined,
    the last one of every session is awaited (so that the next round starts after all answers)"""
    sessions = {}
    for i in range(nsess):
        name = "c%d" % (i + 1)
        state = {"tids": [0], "subs": [], "lss": [], "pubs": [], "proto": 1}
        items = list(first(name, i)) if first else []
        for rd in range(nrounds):
            items.append({"op": "barrier", "n": rd})
            n = rnd.randint(1, per_round)
            batch = [mk(rnd, name, i, state, rd) for _ in range(n)]
            batch = [b for b in batch if b]
            if batch:
                batch[-1]["wait"] = True
            items += batch
        items.append({"op": "barrier", "n": nrounds})
        sessions[name] = items
    sc = {"sessions": sessions}
    if auth:
        sc["auth"] = {"secret": auth}
    return sc


def add_rest(rnd, sc, odd=False, claims=None, n=1):
    """add sessions that use the server's REST API (harness: sessions named rest*) to a rounds scenario"""
    nb = max(it["n"] for it in sc["sessions"]["c1"] if it["op"] == "barrier")
    sc["rest"] = True
    for i in range(n):
        name = "rest%d" % (i + 1)
        items = []
        if claims is not None:
            cl = claims(i)
            if cl is not None:
                items.append(cl)
        for rd in range(nb + 1):
            items.append({"op": "barrier", "n": rd})
            if rd == nb:
                break
            for _ in range(rnd.randint(1, 3)):
                k = rnd.choice(KEYS)
                if odd and rnd.random() < 0.3:
                    k = rnd.choice([["$SYS", "x"], ["a", "", ""], ["?"], ["a", "#", "b"], ["x" * 300], ["$SYS", "clients"], ["w", "k"], ["a b", "%41"]])
                op = rnd.choice(["get", "get", "pget", "set", "set", "delete", "pdelete", "ls", "publish"])
                it = {"op": op, "c": name}
                if op in ("get", "delete"):
                    it["key"] = k
                elif op in ("set", "publish"):
                    it.update(key=k, val=rnd.choice(VALS))
                elif op in ("pget", "pdelete"):
                    it["pat"] = pat_of(rnd, k)
                else:
                    it["parent"] = [] if rnd.random() < 0.3 else k[:rnd.randint(0, len(k))]
                items.append(it)
        sc["sessions"][name] = items
    return sc


def gen_c13(rnd, tier):
    """all message kinds of v0 and v1, valid and invalid arguments, pipelined, 1-3 sessions"""
    def mk(rnd, name, i, st, rd):
        r = rnd.random()
        if r < 0.04:
            st["proto"] = rnd.choice([0, 1])
            return {"op": "proto", "c": name, "version": st["proto"]}
        if r < 0.05:
            return {"op": "proto", "c": name, "version": 7}
        if r < 0.07:
            return {"op": "close", "c": name}
        return rand_request(rnd, name, st["tids"], st["subs"], st["lss"], st["pubs"], v1=True, odd=True)
    n = 24 if tier == "quick" else 400
    out = [rounds_scenario(rnd, rnd.randint(1, 3), rnd.randint(3, 7), 2, mk) for _ in range(n)]
    # lock contention: answers that come from tasks of their own (grant after a release, cancellation by the
    # waiter's own release or by a session end) next to ordinary answers
    for _ in range(4 if tier == "quick" else 60):
        k = rnd.choice(KEYS)
        t = {"c1": 0, "c2": 0, "c3": 0}

        def it(c, op, **kw):
            t[c] += 1
            return dict({"op": op, "c": c, "tid": t[c]}, **kw)
        s1 = [it("c1", rnd.choice(["lock", "acquire"]), key=k, wait=True), {"op": "barrier", "n": 0}, {"op": "barrier", "n": 1}]
        s2 = [{"op": "barrier", "n": 0}, it("c2", "acquire", key=k)]
        s3 = [{"op": "barrier", "n": 0}, it("c3", "acquire", key=k), it("c3", "get", key=k, wait=True)]
        for _k in range(rnd.randint(1, 3)):
            s2.append(rnd.choice([it("c2", "release", key=k), it("c2", "get", key=k), it("c2", "set", key=k, val="v1"),
                                  it("c2", "acquire", key=k), it("c2", "lock", key=k)]))
        s2[-1]["wait"] = True
        s2.append({"op": "barrier", "n": 1})
        s3.append({"op": "barrier", "n": 1})
        end = rnd.random()
        if end < 0.4:
            s1.append(it("c1", "release", key=k, wait=True))
        elif end < 0.7:
            s1.append({"op": "close", "c": "c1"})
        if rnd.random() < 0.3:
            s3.append({"op": "close", "c": "c3"})
        for ss_ in (s1, s2, s3):
            ss_.append({"op": "barrier", "n": 2})
        s2.append(it("c2", "get", key=k, wait=True))
        out.append({"sessions": {"c1": s1, "c2": s2, "c3": s3}})
    return with_extmon(rnd, out)


def with_extmon(rnd, scs, share=0.35, tcp=0.3):
    """part of the scenarios run against a server with extended monitoring on (the default setting);
    part of the socket scenarios use the TCP endpoint instead of the unix socket"""
    for sc in scs:
        if rnd.random() < share:
            sc["extmon"] = True
        if "sessions" in sc and rnd.random() < tcp:
            sc["transport"] = "tcp"
        if "tasks" in sc:                       # client-library scenarios: unix socket, TCP or WebSocket
            sc["transport"] = rnd.choice(["unix", "unix", "tcp", "ws"])
    return scs


def gen_c03_live(rnd, tier):
    """subscriptions observed through sockets: subscribers that subscribe / unsubscribe (plain and pattern, unique
    or not, live-only or with the current state, overlapping) while writers set, cset, delete and pdelete; every
    stream is flushed by a marker and must be exactly what the specification delivers, in order"""
    out = []
    keys = [["a"], ["a", "b"], ["a", "c"], ["b"]]
    pats = [["a", "#"], ["a", "?"], ["#"], ["?"], ["a", "b"]]
    for _ in range(16 if tier == "quick" else 300):
        sessions = {}
        rounds = rnd.randint(2, 4)
        for i in range(rnd.randint(1, 2)):
            name = "c%d" % (i + 1)
            items, t, subs = [], 0, []
            for rd in range(rounds):
                items.append({"op": "barrier", "n": rd})
                for _k in range(rnd.randint(1, 2)):
                    t += 1
                    r = rnd.random()
                    if r < 0.4:
                        subs.append(t)
                        items.append({"op": "sub", "c": name, "key": rnd.choice(keys), "unique": rnd.random() < 0.5, "live": rnd.random() < 0.5, "tid": t, "wait": True})
                    elif r < 0.8:
                        subs.append(t)
                        items.append({"op": "psub", "c": name, "pat": rnd.choice(pats), "unique": rnd.random() < 0.5, "live": rnd.random() < 0.5, "tid": t, "wait": True})
                    elif subs:
                        items.append({"op": "unsub", "c": name, "tid": subs.pop(rnd.randrange(len(subs))), "wait": True})
            items.append({"op": "barrier", "n": rounds})
            sessions[name] = items
        for w in ("c8", "c9"):
            items, t = [], 0
            for rd in range(rounds):
                items.append({"op": "barrier", "n": rd})
                for _k in range(rnd.randint(1, 4)):
                    t += 1
                    k = rnd.choice(keys)
                    r = rnd.random()
                    if r < 0.5:
                        items.append({"op": "set", "c": w, "key": k, "val": rnd.choice(["x", "x", "y", "%s.%d" % (w, t)]), "tid": t})
                    elif r < 0.65:
                        items.append({"op": "cset", "c": w, "key": ["n"] + k, "val": "%s.%d" % (w, t), "ver": rnd.choice([0, 1, 2]), "tid": t})
                    elif r < 0.85:
                        items.append({"op": "delete", "c": w, "key": k, "tid": t})
                    else:
                        items.append({"op": "pdelete", "c": w, "pat": rnd.choice(pats), "tid": t})
                items[-1]["wait"] = True
            items.append({"op": "barrier", "n": rounds})
            sessions[w] = items
        out.append({"sessions": sessions})
    return with_extmon(rnd, out, share=0.25)


def gen_c16_live(rnd, tier):
    """aggregated pattern subscriptions on live sessions: one or two subscribers (aggregated, and plain for
    comparison by the same specification), two writers that burst sets (values repeat) and deletes"""
    out = []
    for _ in range(12 if tier == "quick" else 200):
        keys = [["a", "x"], ["a", "y"], ["a", "z", "w"], ["b"]]
        t1 = [0]

        def sub_items(name):
            items = []
            for j in range(rnd.randint(1, 2)):
                t1[0] += 1
                it = {"op": "psub", "c": name, "pat": rnd.choice([["a", "#"], ["a", "?"], ["#"]]), "unique": rnd.random() < 0.4,
                      "live": rnd.random() < 0.4, "tid": t1[0], "wait": True}
                if j == 0 or rnd.random() < 0.6:
                    it["agg"] = rnd.choice([1, 3, 10, 30])
                items.append(it)
            return items
        s1 = [{"op": "set", "c": "c1", "key": ["a", "x"], "val": "v0", "tid": 90, "wait": True}] + sub_items("c1") + [{"op": "barrier", "n": 0}, {"op": "barrier", "n": 1}]
        writers = {}
        for w in ("c2", "c3"):
            items, t = [{"op": "barrier", "n": 0}], 0
            for _k in range(rnd.randint(3, 12)):
                t += 1
                k = rnd.choice(keys)
                r = rnd.random()
                if r < 0.65:
                    items.append({"op": "set", "c": w, "key": k, "val": rnd.choice(["x", "x", "y", "%s.%d" % (w, t)]), "tid": t})
                elif r < 0.85:
                    items.append({"op": "delete", "c": w, "key": k, "tid": t})
                elif r < 0.93:
                    items.append({"op": "pdelete", "c": w, "pat": ["a", "?"], "tid": t})
                else:
                    items.append({"op": "sleep", "ms": rnd.choice([1, 4, 12])})
            last = [i for i in items if i.get("op") not in ("sleep", "barrier")]
            if last:
                last[-1]["wait"] = True
            items.append({"op": "barrier", "n": 1})
            writers[w] = items
        out.append(dict({"sessions": dict({"c1": s1}, **writers)}, **({"transport": "tcp"} if rnd.random() < 0.3 else {})))
    return out


def gen_c17(rnd, tier):
    """offenders: odd requests in any order and garbage lines; a witness whose round trips must keep working"""
    def mk(rnd, name, i, st, rd):
        if i == 0:      # the witness
            st["tids"][0] += 2
            t = st["tids"][0]
            # (it also looks at what the server says about its sessions and asks for keys the offenders lock:
            #  an offender's session that ended must be gone for everybody)
            return rnd.choice([{"op": "set", "c": name, "key": ["w", "k"], "val": "w%d" % rd, "tid": t},
                               {"op": "get", "c": name, "key": ["w", "k"], "tid": t},
                               {"op": "pget", "c": name, "pat": ["w", "#"], "tid": t},
                               {"op": "pget", "c": name, "pat": ["$SYS", "clients"], "tid": t},
                               {"op": "lock", "c": name, "key": rnd.choice(KEYS), "tid": t},
                               {"op": "release", "c": name, "key": rnd.choice(KEYS), "tid": t}])
        r = rnd.random()
        if r < 0.12:
            return {"op": "raw", "c": name, "line": rnd.choice(GARBAGE)}
        if r < 0.16:
            return {"op": "proto", "c": name, "version": rnd.choice([0, 1, 9])}
        return rand_request(rnd, name, st["tids"], st["subs"], st["lss"], st["pubs"], v1=True, odd=True)
    n = 24 if tier == "quick" else 400
    scs = [rounds_scenario(rnd, rnd.randint(2, 4), rnd.randint(3, 7), 2, mk) for _ in range(n)]
    for sc in scs:
        # when everybody is done the witness takes stock: how many sessions does the server count, are the
        # keys the offenders locked free again (for an offender that is gone), is its own data still there
        w = sc["sessions"]["c1"]
        w.append({"op": "sleep", "ms": GRACE_MS + 200})
        t = 900
        for k in rnd.sample(KEYS, 3):
            w += [{"op": "lock", "c": "c1", "key": k, "tid": t, "wait": True}, {"op": "release", "c": "c1", "key": k, "tid": t + 1, "wait": True}]
            t += 2
        w += [{"op": "pget", "c": "c1", "pat": ["$SYS", "clients"], "tid": t, "wait": True}, {"op": "get", "c": "c1", "key": ["w", "k"], "tid": t + 1, "wait": True}]
    scs = with_extmon(rnd, scs)
    # a quarter of the scenarios: one or two further offenders use the REST API
    # (at most four log sources per scenario: the linearizability search grows with their number)
    for sc in scs:
        room = 4 - len(sc["sessions"])
        if room > 0 and rnd.random() < 0.4:
            add_rest(rnd, sc, odd=True, n=rnd.randint(1, room))
    return scs


GRANTS = [[], [["#"]], [["a", "#"]], [["a", "?"]], [["a", "b"]], [["?", "b"]], [["b"], ["a", "#"]], [["c", "d", "?"]]]


def gen_c15(rnd, tier):
    """authorization on: sessions with enumerated grant sets mix authorised and unauthorised requests of
    every kind; missing / garbage / forged / expired tokens; an unrestricted observer reads the store back"""
    def first(name, i):
        if i == 0:
            return [{"op": "auth", "c": name, "kind": "ok", "claims": {"read": [["#"]], "write": [["#"]], "delete": [["#"]]}, "wait": True}]
        k = rnd.random()
        if k < 0.12:
            return []                                   # no token at all
        if k < 0.3:
            return [{"op": "auth", "c": name, "kind": rnd.choice(["garbage", "forged", "expired"]),
                     "claims": {"read": [], "write": [], "delete": []}, "wait": True}]
        cl = {"read": rnd.choice(GRANTS), "write": rnd.choice(GRANTS), "delete": rnd.choice(GRANTS)}
        if rnd.random() < 0.3:                          # one privilege not granted at all, the others broadly
            cl = {"read": [["#"]], "write": [["#"]], "delete": [["#"]]}
            cl[rnd.choice(["read", "write", "delete"])] = []
        items = [{"op": "auth", "c": name, "kind": "ok", "claims": cl, "wait": True}]
        if rnd.random() < 0.5:
            items[0]["omit_empty"] = True               # privileges without patterns are left out of the token
        if rnd.random() < 0.1:
            items.append({"op": "auth", "c": name, "kind": "ok", "claims": cl, "wait": True})    # a second one
        return items

    def mk(rnd, name, i, st, rd):
        if i == 0:      # the observer
            st["tids"][0] += 1
            return {"op": "pget", "c": name, "pat": ["#"], "tid": st["tids"][0]}
        it = rand_request(rnd, name, st["tids"], st["subs"], st["lss"], st["pubs"], v1=True, odd=False)
        if it["op"] in ("sub", "psub", "subls"):        # no marker session under authorization: keep to requests
            st["tids"][0] += 1
            return {"op": "get", "c": name, "key": rnd.choice(KEYS), "tid": st["tids"][0]}
        return it
    n = 24 if tier == "quick" else 400
    scs = [rounds_scenario(rnd, rnd.randint(2, 3), rnd.randint(3, 6), 2, mk, auth="s3cr3t", first=first) for _ in range(n)]
    # a third of them: one or two clients of the REST API next to the sessions, with a token of their own (or none,
    # or an invalid one) on every request
    def rest_claims(i):
        k = rnd.random()
        if k < 0.15:
            return None
        if k < 0.3:
            return {"op": "auth", "kind": rnd.choice(["garbage", "forged", "expired"]), "claims": {"read": [], "write": [], "delete": []}}
        return {"op": "auth", "kind": "ok", "claims": {"read": rnd.choice(GRANTS), "write": rnd.choice(GRANTS), "delete": rnd.choice(GRANTS)}}
    for sc in scs:
        room = 4 - len(sc["sessions"])
        if room > 0 and rnd.random() < 0.4:
            add_rest(rnd, sc, odd=False, claims=rest_claims, n=rnd.randint(1, room))
    # one privilege not granted (an empty list, or no entry at all in the token), the other two granted for
    # everything: every kind of request once, on data an unrestricted session wrote before
    for missing in ("read", "write", "delete"):
        for omit in (False, True):
            cl = {"read": [["#"]], "write": [["#"]], "delete": [["#"]]}
            cl[missing] = []
            k = rnd.choice([["a"], ["a", "b"], ["b"]])
            full = {"read": [["#"]], "write": [["#"]], "delete": [["#"]]}
            s1 = [{"op": "auth", "c": "c1", "kind": "ok", "claims": full, "wait": True},
                  {"op": "set", "c": "c1", "key": k, "val": "v1", "tid": 1, "wait": True}, {"op": "barrier", "n": 0}, {"op": "barrier", "n": 1},
                  {"op": "pget", "c": "c1", "pat": ["#"], "tid": 2, "wait": True}]
            t = [0]

            def it(op, **kw):
                t[0] += 1
                return dict({"op": op, "c": "c2", "tid": t[0]}, **kw)
            reqs = [it("get", key=k), it("pget", pat=["#"]), it("ls", parent=[]), it("set", key=k, val="v2"), it("cset", key=["n"], val="v2", ver=0),
                    it("publish", key=k, val="v3"), it("delete", key=k), it("pdelete", pat=["a", "#"]), it("lock", key=k), it("release", key=k),
                    it("spubinit", key=k), it("cget", key=k)]
            rnd.shuffle(reqs)
            reqs[-1]["wait"] = True
            s2 = [dict({"op": "auth", "c": "c2", "kind": "ok", "claims": cl, "wait": True}, **({"omit_empty": True} if omit else {})),
                  {"op": "barrier", "n": 0}] + reqs + [{"op": "barrier", "n": 1}]
            scs.append({"auth": {"secret": "s3cr3t"}, "sessions": {"c1": s1, "c2": s2}})
    return with_extmon(rnd, scs, share=0.0)


def gen_c02(rnd, tier):
    """k concurrent sessions run cget-then-cset cycles on shared keys without any synchronisation"""
    n = 12 if tier == "quick" else 200
    out = []
    for _ in range(n):
        k = rnd.randint(2, 4)
        cycles = rnd.randint(3, 8)
        keys = [["cnt"], ["cnt", "x"]][:rnd.randint(1, 2)]
        sessions = {}
        for i in range(k):
            name = "c%d" % (i + 1)
            items, t = [], 0
            for c in range(cycles):
                key = rnd.choice(keys)
                t += 2
                items.append({"op": "cget", "c": name, "key": key, "tid": t, "wait": True})
                r = rnd.random()
                if r < 0.8:
                    items.append({"op": "cset", "c": name, "key": key, "val": "%s.%d" % (name, c), "ver_from": "cget", "ver": 0,
                                  "tid": t + 1, "wait": True})
                elif r < 0.9:
                    items.append({"op": "cset", "c": name, "key": key, "val": "%s.%d" % (name, c), "ver": rnd.choice([0, 1, 99]),
                                  "tid": t + 1, "wait": True})
                else:
                    items.append({"op": "set", "c": name, "key": key, "val": "%s.p%d" % (name, c), "tid": t + 1, "wait": True})
            sessions[name] = items
        # a non-unique subscription on the contended key sees every acknowledged update once, in order
        sessions["c9"] = [{"op": "sub", "c": "c9", "key": keys[0], "unique": False, "live": False, "tid": 1, "wait": True}]
        out.append({"sessions": sessions})
    return with_extmon(rnd, out, share=0.2)


def gen_c20(rnd, tier):
    """client library: one connection, its handle cloned to 2-4 tasks that call the public API
    concurrently, in rounds (each call is awaited by its task; the tasks are not synchronised
    inside a round); every kind of unsubscribe is followed by the harness' server-side probe"""
    n = 40 if tier == "quick" else 600
    out = []
    for _ in range(n):
        nt = rnd.randint(2, 4)
        rounds = rnd.randint(2, 5)
        tasks = {}
        for i in range(nt):
            items = []
            nsub = nls = npub = 0
            for rd in range(rounds):
                items.append({"op": "barrier", "n": rd})
                for _k in range(rnd.randint(1, 3)):
                    k = rnd.choice(KEYS)
                    op = rnd.choice(["get", "get", "cget", "pget", "set", "set", "cset", "cset", "publish", "delete", "pdelete", "ls", "pls",
                                     "lock", "release", "sub", "psub", "subls", "sub_async", "psub_async", "subls_async",
                                     "unsub", "unsub_async", "unsubls", "unsubls_async",
                                     "spubinit", "spub", "spub", "set_name"])
                    it = {"op": op}
                    if op == "spubinit":
                        npub += 1
                        it.update(key=k)
                    elif op == "spub":
                        if not npub:
                            continue
                        it.update(ref=rnd.randint(0, 2), val=rnd.choice(VALS))
                        if rnd.random() < 0.3:
                            it["ff"] = True
                    elif op == "set_name":
                        it.update(val=rnd.choice(["v1", "v2", "v3"]))
                    if op in ("get", "cget", "delete", "lock", "release"):
                        it.update(key=k)
                    elif op in ("set", "publish"):
                        it.update(key=k, val=rnd.choice(VALS))
                    elif op == "cset":
                        it.update(key=k, val=rnd.choice(VALS))
                        if rnd.random() < 0.5:
                            it.update(ver_from="cget", ver=0)
                        else:
                            it.update(ver=rnd.choice([0, 0, 1, 2]))
                    elif op in ("pget", "pdelete"):
                        it.update(pat=pat_of(rnd, k, illegal=0.05))
                    elif op == "ls":
                        it.update(parent=k[:rnd.randint(0, len(k))])
                    elif op == "pls":
                        p = pat_of(rnd, k)
                        it.update(pat=p[:rnd.randint(0, len(p))])
                    elif op == "sub_async":
                        nsub += 1
                        it.update(key=k, unique=rnd.random() < 0.5, live=rnd.random() < 0.4)
                    elif op == "psub_async":
                        nsub += 1
                        it.update(pat=pat_of(rnd, k, illegal=0.0), unique=rnd.random() < 0.5, live=rnd.random() < 0.4)
                    elif op == "subls_async":
                        nls += 1
                        it.update(parent=k[:rnd.randint(0, len(k))])
                    elif op == "sub":
                        nsub += 1
                        it.update(key=k, unique=rnd.random() < 0.5, live=rnd.random() < 0.4)
                    elif op == "psub":
                        nsub += 1
                        it.update(pat=pat_of(rnd, k, illegal=0.0), unique=rnd.random() < 0.5, live=rnd.random() < 0.4)
                    elif op == "subls":
                        nls += 1
                        it.update(parent=k[:rnd.randint(0, len(k))])
                    elif op in ("unsub", "unsub_async"):
                        if not nsub:
                            continue
                        it.update(ref=rnd.randint(0, 3))
                    elif op in ("unsubls", "unsubls_async"):
                        if not nls:
                            continue
                        it.update(ref=rnd.randint(0, 3))
                    if op in ("get", "cget", "set", "pget", "delete", "pdelete", "sub", "psub", "publish", "cset", "spub") and rnd.random() < 0.5:
                        it["typed"] = True
                    # fire-and-forget variant of a write (`*_async`): nothing is awaited, the effect must still be there
                    if op in ("set", "cset", "publish", "delete", "pdelete", "lock", "release") and rnd.random() < 0.25:
                        it["ff"] = True
                    items.append(it)
            items.append({"op": "barrier", "n": rounds})
            tasks["t%d" % (i + 1)] = items
        out.append({"tasks": tasks})
    # contention on the library's compare-and-swap loop (swap/update): every task swaps its own values into the
    # same one or two keys without synchronisation; afterwards the versions tell how many swaps took effect
    for _ in range(6 if tier == "quick" else 100):
        nt = rnd.randint(2, 4)
        keys = [["cnt"], ["cnt", "x"]][:rnd.randint(1, 2)]
        tasks = {}
        for i in range(nt):
            items = [{"op": "barrier", "n": 0}]
            for j in range(rnd.randint(2, 5)):
                items.append({"op": "swap", "key": rnd.choice(keys), "val": "t%d.%d" % (i + 1, j)})
                if rnd.random() < 0.2:
                    items.append({"op": "cget", "key": rnd.choice(keys)})
            items.append({"op": "barrier", "n": 1})
            items += [{"op": "cget", "key": k} for k in keys]
            tasks["t%d" % (i + 1)] = items
        out.append({"tasks": tasks})
    return with_extmon(rnd, out)


def gen_c20_buffer(rnd, tier):
    """send buffer: bursts of set_later / publish_later on few keys (repeated keys, set and publish on
    the same key) separated by pauses around the delay (10)"""
    n = 60 if tier == "quick" else 1500
    out = []
    ctr = [0]
    for _ in range(n):
        tasks = {}
        for t in range(rnd.choice([1, 1, 2])):
            items = []
            for _k in range(rnd.randint(2, 10)):
                r = rnd.random()
                if r < 0.35:
                    items.append({"op": "sleep", "ms": rnd.choice([0, 1, 2, 3, 5, 9, 10, 10, 11, 12, 20, 21, 30])})
                else:
                    ctr[0] += 1
                    items.append({"op": "set_later" if rnd.random() < 0.6 else "publish_later", "k": rnd.choice(["a", "a", "b", "c"]),
                                  "v": "v%d" % ctr[0]})
            tasks["t%d" % (t + 1)] = items
        out.append({"delay": 10, "tasks": tasks})
    return out
