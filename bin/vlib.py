#!/usr/bin/env python3
"""Shared machinery of /verif/bin/check: build, TLC runs, edge dump -> walks,
harness runs, trace validation (two passes + attribution), evidence, exit codes.

Exit codes of a check: 0 = property held on everything explored (KNOWN-FINDING
lines possible), 1 = VIOLATION (with a replay file), 2 = tool error / timeout.
"""
import json, os, re, shutil, subprocess, sys, time, random, hashlib, collections

VERIF = os.path.dirname(os.path.dirname(os.path.abspath(__file__)))
SPEC = os.path.join(VERIF, "spec")
# the three overrides exist for running the checks against a mutated scratch copy of the
# repository (seeded-defect experiments) without touching /repo, /verif/work or the evidence
WORK = os.environ.get("VERIF_WORK", os.path.join(VERIF, "work"))
HARNESS = os.environ.get("VERIF_HARNESS_DIR", os.path.join(VERIF, "harness"))
BIN = os.path.join(HARNESS, "target", "debug", "wbverif")
EVID = os.path.join(VERIF, "evidence")
KNOWN_FILE = os.path.join(VERIF, "known_findings.json")
REPO = os.environ.get("VERIF_REPO", "/repo")
NCPU = os.cpu_count() or 4


class ToolError(Exception):
    pass


class ProcessDied(Exception):
    """the process that runs the code under test died (signal / abort / unwinding out of main):
    that is an observation about the code under test, not a tool problem"""
    def __init__(self, args_, rc, out):
        super().__init__(f"harness {' '.join(args_)} died with status {rc}")
        self.args_, self.rc, self.out = args_, rc, out


def log(*a):
    print(*a, flush=True)


def sh(cmd, cwd=None, env=None, timeout=None, check=False):
    e = dict(os.environ)
    if env:
        e.update(env)
    try:
        p = subprocess.run(cmd, cwd=cwd, env=e, timeout=timeout, shell=isinstance(cmd, str),
                           stdout=subprocess.PIPE, stderr=subprocess.STDOUT, text=True, errors="replace")
    except subprocess.TimeoutExpired as ex:
        raise ToolError(f"timeout after {timeout}s: {cmd}") from ex
    if check and p.returncode != 0:
        raise ToolError(f"command failed ({p.returncode}): {cmd}\n{p.stdout[-4000:]}")
    return p.returncode, p.stdout


# --------------------------------------------------------------------------- build
def build_harness():
    """cargo build of the harness; path dependencies on /repo make this a rebuild
    of the current working tree with the verif hooks enabled."""
    t0 = time.time()
    lock = os.path.join(HARNESS, "Cargo.lock")
    if not os.path.exists(lock):
        shutil.copy(os.path.join(REPO, "Cargo.lock"), lock)
    rc, out = sh(["cargo", "build", "--offline"], cwd=HARNESS,
                 env={"CARGO_NET_OFFLINE": "true"}, timeout=1800)
    if rc != 0:
        raise ToolError("harness build failed:\n" + out[-6000:])
    return time.time() - t0


# --------------------------------------------------------------------------- known findings
def load_known():
    if not os.path.exists(KNOWN_FILE):
        return []
    return json.load(open(KNOWN_FILE))["findings"]


def known_flags():
    return sorted({f["id"] for f in load_known() if f.get("status") == "known" and f["id"].startswith("D_")})


def finding(flag):
    for f in load_known():
        if f["id"] == flag:
            return f
    return {"id": flag, "what_fails": flag}


# --------------------------------------------------------------------------- TLC
def workdir(*parts):
    d = os.path.join(WORK, *parts)
    shutil.rmtree(d, ignore_errors=True)
    os.makedirs(d)
    for f in os.listdir(SPEC):
        if f.endswith(".tla"):
            shutil.copy(os.path.join(SPEC, f), d)
    return d


def dev_set(flags):
    return "{" + ", ".join('"%s"' % f for f in flags) + "}"


def tlc(d, module, cfg_text, workers=4, timeout=900, env=None, heap="4g", extra=()):
    cfg = os.path.join(d, module + "_run.cfg")
    open(cfg, "w").write(cfg_text)
    e = {"JAVA_TOOL_OPTIONS": "-Xss1g -Xmx%s" % heap}
    if env:
        e.update(env)
    # TLC leaves an (empty) directory per run in java.io.tmpdir: keep them out of /tmp
    jtmp = os.path.join(WORK, "jtmp")
    os.makedirs(jtmp, exist_ok=True)
    e["JAVA_TOOL_OPTIONS"] = e.get("JAVA_TOOL_OPTIONS", "") + " -Djava.io.tmpdir=" + jtmp
    cmd = ["timeout", str(timeout), "tlc", "-workers", str(workers), "-metadir", os.path.join(d, "md"),
           "-cleanup", "-noGenerateSpecTE", "-config", cfg, *extra, os.path.join(d, module + ".tla")]
    rc, out = sh(cmd, cwd=d, env=e, timeout=timeout + 60)
    if rc == 124:
        raise ToolError(f"TLC timeout ({timeout}s) on {module}")
    if "Parsing or semantic analysis failed" in out:
        # a specification that does not parse is a defect of the machinery, never a verdict about the code
        raise ToolError(f"{module} does not parse:\n" + out[-3000:])
    return out


def tlc_stats(out):
    m = re.search(r"(\d+) states generated, (\d+) distinct states found", out)
    if not m:
        return None
    return {"generated": int(m.group(1)), "distinct": int(m.group(2))}


def tlc_error(out):
    """first TLC error line, or None"""
    for line in out.splitlines():
        if line.startswith("Error:"):
            return line
    return None


# --------------------------------------------------------------------------- TLA string parsing
def parse_tla_tuple_of_strings(line):
    """<<"a", "b", ...>> -> [a, b, ...] (TLC prints strings with \\" and \\\\ escapes)"""
    res, i, n = [], 0, len(line)
    while i < n:
        if line[i] == '"':
            i += 1
            buf = []
            while i < n and line[i] != '"':
                if line[i] == "\\" and i + 1 < n:
                    c = line[i + 1]
                    buf.append({"n": "\n", "t": "\t", "r": "\r", "f": "\f"}.get(c, c))
                    i += 2
                else:
                    buf.append(line[i])
                    i += 1
            i += 1
            res.append("".join(buf))
        else:
            i += 1
    return res


# --------------------------------------------------------------------------- edges -> walks
def edge_dump(d, module, cfg_text, timeout=900):
    out = tlc(d, module, cfg_text, workers=1, timeout=timeout)
    err = tlc_error(out)
    if err:
        raise ToolError(f"edge dump of {module} failed: {err}\n{out[-3000:]}")
    edges = []
    meaning = {}
    init = None
    for line in out.splitlines():
        if line.startswith('<<"INIT"'):
            init = parse_tla_tuple_of_strings(line)[1]
        if line.startswith('<<"MEANING"'):
            m = json.loads(parse_tla_tuple_of_strings(line)[1])
            meaning = m if isinstance(m, dict) else {}
        if line.startswith('<<"EDGE"'):
            parts = parse_tla_tuple_of_strings(line)
            if len(parts) != 4:
                raise ToolError("unparsable EDGE line: " + line[:200])
            edges.append((parts[1], json.loads(parts[2]), parts[3]))
    if edges and init not in {e[0] for e in edges}:
        raise ToolError(f"edge dump of {module}: the initial node is not the source of any edge (INIT line and CanonS out of step)")
    return edges, tlc_stats(out), meaning, init


def make_walks(edges, init_state, seed=0, max_walk=400):
    """Cover every edge of the bounded graph at least once with walks that start
    in the initial state.  Returns list of walks (lists of request dicts)."""
    rnd = random.Random(seed)
    ids = {}

    def nid(s):
        if s not in ids:
            ids[s] = len(ids)
        return ids[s]

    out = collections.defaultdict(list)
    init = nid(init_state)
    seen = set()
    for (s, a, t) in edges:
        if a.get("op") == "init":
            continue
        key = (s, json.dumps(a, sort_keys=True))
        if key in seen:          # same request in the same implementation state
            continue
        seen.add(key)
        out[nid(s)].append([a, nid(t), False])
    # BFS tree from init
    def bfs(src):
        prev = {src: None}
        q = collections.deque([src])
        while q:
            x = q.popleft()
            for i, (a, t, _) in enumerate(out.get(x, [])):
                if t not in prev:
                    prev[t] = (x, i)
                    q.append(t)
        return prev
    tree = bfs(init)

    def path(prev, dst):
        p = []
        while prev[dst] is not None:
            x, i = prev[dst]
            p.append((x, i))
            dst = x
        return list(reversed(p))

    uncovered = {n: [i for i in range(len(es))] for n, es in out.items()}
    for n in uncovered:
        rnd.shuffle(uncovered[n])
    remaining = sum(len(v) for v in uncovered.values())
    walks, cur, walk = [], init, []

    def take(x, i):
        nonlocal remaining, cur
        e = out[x][i]
        if not e[2]:
            e[2] = True
            remaining -= 1
            uncovered[x].remove(i)
        walk.append(e[0])
        cur = e[1]

    while remaining > 0:
        if uncovered.get(cur) and len(walk) < max_walk:
            take(cur, uncovered[cur][-1])
            continue
        # navigate to the nearest state with uncovered edges
        target, prev = None, None
        if len(walk) < max_walk:
            prev = bfs(cur)
            best = None
            for n in prev:
                if uncovered.get(n):
                    L = len(path(prev, n))
                    if best is None or L < best[0]:
                        best = (L, n)
            if best and best[0] <= 8:
                target = best[1]
        if target is None:
            if walk:
                walks.append(walk)
            walk, cur = [], init
            cand = [n for n in tree if uncovered.get(n)]
            if not cand:
                break
            target = min(cand, key=lambda n: len(path(tree, n)))
            prev = tree
        for (x, i) in path(prev, target):
            take(x, i)
    if walk:
        walks.append(walk)
    return walks, len(ids), sum(len(v) for v in out.values())


def write_requests(path, walks, meaning, proj=True, extra_hdr=None):
    with open(path, "w") as f:
        f.write(json.dumps(dict({"hdr": True, "meaning": meaning, "proj": proj}, **(extra_hdr or {}))) + "\n")
        first = True
        for w in walks:
            if not first:
                f.write('{"op":"reset"}\n')
            first = False
            for r in w:
                f.write(json.dumps(r) + "\n")


def split_requests(path, nchunks, d):
    """split a request file at reset records into nchunks files (whole walks)"""
    lines = open(path).read().splitlines()
    hdr, body = lines[0], lines[1:]
    walks, cur = [], []
    for ln in body:
        if ln.startswith('{"op":"reset"}') or ln.startswith('{"op": "reset"}'):
            walks.append(cur)
            cur = []
        else:
            cur.append(ln)
    if cur:
        walks.append(cur)
    total = sum(len(w) for w in walks)
    per = max(1, total // nchunks)
    chunks, acc, n = [], [], 0
    for w in walks:
        acc.append(w)
        n += len(w)
        if n >= per and len(chunks) < nchunks - 1:
            chunks.append(acc)
            acc, n = [], 0
    if acc:
        chunks.append(acc)
    files = []
    for i, ch in enumerate(chunks):
        p = os.path.join(d, os.path.basename(path)[:-len(".ndjson")] + f"_{i}.ndjson")
        with open(p, "w") as f:
            f.write(hdr + "\n")
            for j, w in enumerate(ch):
                if j:
                    f.write('{"op":"reset"}\n')
                f.write("\n".join(w) + "\n")
        files.append(p)
    return files


# --------------------------------------------------------------------------- harness
def run_harness(args, timeout=900):
    scratch = os.path.join(WORK, "scratch")
    os.makedirs(scratch, exist_ok=True)
    rc, out = sh([os.path.join(HARNESS, "target", "debug", "wbverif"), *args], timeout=timeout, env={"WBVERIF_SCRATCH": scratch})
    if rc < 0 or rc in (101, 134, 139):
        raise ProcessDied(args, rc, out)
    if rc != 0:
        raise ToolError(f"harness {' '.join(args)} failed ({rc}):\n{out[-3000:]}")
    return out


# --------------------------------------------------------------------------- trace validation
TRACE_ENV = {"JAVA_TOOL_OPTIONS": "-Xss1g -Xmx3g -Dtlc2.tool.queue.IStateQueue=StateDeque"}


def validate_once(d, module, cfg_tpl, trace, flags, invariants, timeout=900):
    """one TLC trace-validation run; returns (accepted, detail)"""
    cfg = cfg_tpl.replace("@DEV@", dev_set(flags)).replace("@INV@", invariants if not flags else "")
    env = dict(TRACE_ENV)
    env["TRACE"] = trace
    sub = os.path.join(d, "v_" + hashlib.md5((trace + ",".join(flags)).encode()).hexdigest()[:10])
    os.makedirs(sub, exist_ok=True)
    for f in os.listdir(d):
        if f.endswith(".tla"):
            shutil.copy(os.path.join(d, f), sub)
    out = tlc(sub, module, cfg, workers=1, timeout=timeout, env=env, heap="3g")
    shutil.rmtree(os.path.join(sub, "md"), ignore_errors=True)
    st = tlc_stats(out)
    err = tlc_error(out)
    if err is None and st is not None and "Model checking completed. No error" in out:
        used = []
        for line in out.splitlines():
            if line.startswith('"DEV-USED'):
                used = sorted(set(re.findall(r"D_[A-Z_]+", line)))
        return True, {"states": st["distinct"], "used": used}
    rej = None
    for line in out.splitlines():
        if line.startswith('<<"TRACE-REJECTED'):
            rej = line
    if rej is None and err is None:
        raise ToolError("TLC gave neither acceptance nor error:\n" + out[-3000:])
    if err and "Postcondition" not in err and "Invariant" not in err and rej is None:
        # evaluation error inside the spec while matching a record: treat as rejection
        # only if it is not a tool problem
        if "unexpected exception" in out and "Attempted" not in out:
            raise ToolError("TLC exception:\n" + out[-3000:])
    return False, {"error": err, "rejected": rej, "states": st["distinct"] if st else 0, "tail": out[-1500:]}


def validate(d, module, cfg_tpl, trace, invariants, known, timeout=900):
    """Two-pass validation (DESIGN 2.2).
    returns dict(status = ok | known | violation, flags=[...], detail=...)"""
    ok, det = validate_once(d, module, cfg_tpl, trace, [], invariants, timeout)
    if ok:
        return {"status": "ok", "flags": [], "states": det["states"]}
    if not known:
        return {"status": "violation", "flags": [], "detail": det}
    ok2, det2 = validate_once(d, module, cfg_tpl, trace, known, invariants, timeout)
    if not ok2:
        return {"status": "violation", "flags": [], "detail": det2, "detail_ideal": det}
    # attribution: the deviations the accepted run actually went through (TLC registers
    # set by Core!Flag at the places where pinned code and intended behaviour part)
    needed = det2.get("used", [])
    return {"status": "known", "flags": needed, "states": det2["states"], "detail_ideal": det}


def parallel(fn, items, nproc=None):
    """run fn over items in a small thread pool (work is in subprocesses)"""
    from concurrent.futures import ThreadPoolExecutor
    nproc = nproc or max(1, min(len(items), NCPU // 2))
    with ThreadPoolExecutor(max_workers=nproc) as ex:
        return list(ex.map(fn, items))


# --------------------------------------------------------------------------- evidence / result
def write_evidence(prop, tier, seed, coverage, assumptions, wall, violations, level="model_checking"):
    if os.environ.get("VERIF_NO_EVIDENCE"):
        return
    os.makedirs(EVID, exist_ok=True)
    ev = {"property_id": prop, "tier": tier, "seed": seed, "level": level, "coverage": coverage,
          "assumptions": assumptions, "wall_s": round(wall, 1), "violations": violations}
    json.dump(ev, open(os.path.join(EVID, prop + ".json"), "w"), indent=1)


def save_replay(prop, name, payload):
    d = os.path.join(WORK, "replay")
    os.makedirs(d, exist_ok=True)
    p = os.path.join(d, f"{prop}_{name}.json")
    json.dump(payload, open(p, "w"), indent=1)
    return p
