#!/usr/bin/env python3
"""Writes seeded/<id>/meta.json for every kept seeded change from seeded/RESULTS.json (the table of what
was run against it and what was observed) and the agent's README (what it breaks, what it needs)."""
import json, os, re, sys
ROOT = os.path.dirname(os.path.dirname(os.path.abspath(__file__)))
SEEDED = os.path.join(ROOT, "seeded")
res = json.load(open(os.path.join(SEEDED, "RESULTS.json")))


def section(text, *heads):
    """first paragraph(s) after a heading / sentence that mentions what is needed"""
    lines = text.splitlines()
    for i, l in enumerate(lines):
        if any(h in l.lower() for h in heads):
            body = []
            for m in lines[i + (1 if l.startswith("#") else 0):]:
                if m.startswith("#") and body:
                    break
                body.append(m)
                if len(" ".join(body)) > 700:
                    break
            return " ".join(x.strip() for x in body if x.strip())[:800]
    return ""


for sid in sorted(os.listdir(SEEDED)):
    d = os.path.join(SEEDED, sid)
    if not os.path.isdir(d) or not re.match(r"C\d+_m\d+$", sid):
        continue
    readme = open(os.path.join(d, "README.agent.md")).read()
    title = readme.splitlines()[0].lstrip("# ").strip()
    r = res.get(sid, {})
    meta = {
        "id": sid,
        "property": sid.split("_")[0],
        "title": title,
        "breaks": section(readme, "what breaks", "how it breaks", "breaks c") or title,
        "needs_to_manifest": section(readme, "needed to manifest", "needed for it to manifest", "what it needs", "needs a sequence"),
        "files": sorted(set(re.findall(r"^\+\+\+ b/(\S+)", open(os.path.join(d, "patch.diff")).read(), re.M))),
        "confirmed": r.get("confirm", "not run"),
        "confirm_cmd": r.get("confirm_cmd", f"bin/seedconfirm seeded/{sid}"),
        "checks_run": r.get("runs", []),
        "detected_by": r.get("detected_by", []),
        "missed_by": r.get("missed_by", []),
        "notes": r.get("notes", ""),
    }
    json.dump(meta, open(os.path.join(d, "meta.json"), "w"), indent=1)
# summary table (pasted into DESIGN.md section 13)
rows = ["| seeded change | what it breaks (short) | caught by | missed by | demonstration |", "|---|---|---|---|---|"]
for sid in sorted(os.listdir(SEEDED)):
    dd = os.path.join(SEEDED, sid)
    if not os.path.isdir(dd) or not re.match(r"C\d+_m\d+$", sid):
        continue
    m = json.load(open(os.path.join(dd, "meta.json")))
    t = re.sub(r"^[Cc]\d+\s*[/_]?\s*m\d\s*-\s*", "", m["title"])
    rows.append("| `%s` | %s | %s | %s | %s |" % (sid, t[:110], ", ".join(m["detected_by"]) or "-", ", ".join(m["missed_by"]) or "-",
                                                 "confirmed" if "CONFIRMED" in m["confirmed"] and "NOT" not in m["confirmed"] else m["confirmed"]))
open(os.path.join(SEEDED, "SUMMARY.md"), "w").write("\n".join(rows) + "\n")
print("meta.json written for", len([x for x in os.listdir(SEEDED) if os.path.isdir(os.path.join(SEEDED, x))]), "seeds")
