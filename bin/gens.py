"""Seeded random request histories (impl -> spec direction).
Each generator returns (header, list of request records of CoreSpec)."""
import json

SEGS = ["a", "b", "c", "", "ü", "x y", "$SYS"]


def key_pool(rnd, n=14, maxdepth=4, segs=None):
    segs = segs or ["a", "b", "c", "", "ü"]
    pool = set()
    while len(pool) < n:
        d = rnd.randint(1, maxdepth)
        k = tuple(rnd.choice(segs) for _ in range(d))
        if k == ("",):
            continue
        pool.add(k)
    # make sure some keys are prefixes of others
    for k in list(pool)[:4]:
        if len(k) > 1:
            pool.add(k[:-1])
    return [list(k) for k in sorted(pool)]


def pattern_of(rnd, key, illegal=0.08):
    p = list(key)
    for i in range(len(p)):
        if rnd.random() < 0.3:
            p[i] = "?"
    r = rnd.random()
    if r < 0.35:
        cut = rnd.randint(0, len(p))
        p = p[:cut] + ["#"]
    elif r < 0.35 + illegal and len(p) >= 2:
        i = rnd.randint(0, len(p) - 2)
        p[i] = "#"
    if rnd.random() < 0.1:
        p.append(rnd.choice(["a", "?", "b"]))
    return p


VALS = ["v%d" % i for i in range(6)] + ['j:{"x":1}', "j:[1,2]", "j:null", "j:true", "j:1.5", "j:7",
                                        'j:{"Cas":[1,2]}', "j:[]", "line\nbreak", "sp ace/sl?sh#"]


# values an import file cannot carry faithfully as PLAIN entries (they are read as a CAS entry
# resp. as "no value", see D_CAS_SHAPED / D_NULL_RELOAD): not used inside import trees
IMPORT_VALS = [v for v in VALS if "Cas" not in v and v != "j:null"]


def rnd_tree(rnd, pool):
    nodes = {(): {"k": "none", "v": "", "n": 0}}
    for _ in range(rnd.randint(1, 4)):
        k = tuple(rnd.choice(pool))
        for i in range(len(k)):
            nodes.setdefault(k[:i], {"k": "none", "v": "", "n": 0})
        if rnd.random() < 0.5:
            nodes[k] = {"k": "plain", "v": rnd.choice(IMPORT_VALS), "n": 0}
        else:
            nodes[k] = {"k": "cas", "v": rnd.choice(IMPORT_VALS), "n": rnd.choice([0, 1, 2, 3, 7, 50])}
    return [{"p": list(p), "e": e} for p, e in sorted(nodes.items())]


def gen_c01(rnd, n):
    pool = key_pool(rnd)
    clients = ["c1", "c2", "c3"]
    reqs = []
    for _ in range(n):
        r = rnd.random()
        k = rnd.choice(pool)
        c = rnd.choice(clients)
        if r < 0.22:
            reqs.append({"op": "set", "key": k, "val": rnd.choice(VALS), "c": c})
        elif r < 0.40:
            reqs.append({"op": "cset", "key": k, "val": rnd.choice(VALS), "ver": rnd.choice([0, 0, 1, 1, 2, 3, 4, 8, 51]), "c": c})
        elif r < 0.50:
            reqs.append({"op": "delete", "key": k, "c": c})
        elif r < 0.58:
            reqs.append({"op": "pdelete", "pat": pattern_of(rnd, k), "c": c})
        elif r < 0.62:
            reqs.append({"op": "import", "tree": rnd_tree(rnd, pool)})
        elif r < 0.635:
            # a registration value that does not parse (answered with an error: must change nothing)
            reqs.append({"op": "set", "key": ["$SYS", "clients", c, rnd.choice(["graveGoods", "lastWill"])], "val": rnd.choice(["v1", "j:7"]), "c": c})
        elif r < 0.70:
            reqs.append({"op": "get", "key": k if rnd.random() < 0.9 else pattern_of(rnd, k)})
        elif r < 0.76:
            reqs.append({"op": "cget", "key": k})
        elif r < 0.86:
            reqs.append({"op": "pget", "pat": pattern_of(rnd, k)})
        elif r < 0.92:
            reqs.append({"op": "ls", "parent": k[:rnd.randint(0, len(k))]})
        elif r < 0.97:
            p = pattern_of(rnd, k)
            reqs.append({"op": "pls", "pat": p[:rnd.randint(0, len(p))]})
        else:
            reqs.append({"op": "len"})
    return {"hdr": True, "meaning": {}, "proj": True}, reqs


def make_meaning(rnd, pool, clients, sys_targets=False):
    """tokens for grave goods / last wills with their meaning"""
    meaning = {}
    for i in range(5):
        pats = [pattern_of(rnd, rnd.choice(pool), illegal=0.05) for _ in range(rnd.randint(1, 3))]
        if sys_targets and rnd.random() < 0.6:
            pats.append(rnd.choice([["?", "s"], ["#"], ["$SYS", "#"], ["?", "#"], ["$SYS", "clients", rnd.choice(clients), "#"],
                                    ["?", "clients"], [""]]))
        pats.append(["__gg%d" % i])       # makes every token's meaning distinct (the harness maps values back to tokens)
        meaning["gg%d" % i] = {"gg": pats, "lw": []}
    for i in range(5):
        kvs = [{"k": rnd.choice(pool), "v": "w%d" % rnd.randint(0, 3)} for _ in range(rnd.randint(1, 3))]
        if sys_targets and rnd.random() < 0.6:
            # (a will onto the client's OWN $SYS sub tree would survive the session under the retired connection id,
            #  which the model - one identity per client name - cannot tell from the next connection's: not generated)
            kvs.append({"k": rnd.choice([["$SYS", "s"], ["$SYS", "clients", "c9", "graveGoods"], [""], ["a", "?"]]),
                        "v": "evil"})
        kvs.append({"k": ["__lw", "t%d" % i], "v": "u"})
        meaning["lw%d" % i] = {"gg": [], "lw": kvs}
    meaning["j:[]"] = {"gg": [], "lw": []}      # the empty list parses as either
    return meaning


def gen_mixed(weights, nclients=3, need_connect=False, sys_targets=False, lock_keys=None):
    """generator factory; weights: op -> relative weight"""
    ops = list(weights)
    wts = [weights[o] for o in ops]

    def gen(rnd, n):
        pool = key_pool(rnd, n=10, maxdepth=3, segs=["a", "b", "c", ""])
        clients = ["c%d" % (i + 1) for i in range(nclients)]
        meaning = make_meaning(rnd, pool, clients, sys_targets) if need_connect else {}
        lkeys = lock_keys or [["l", "1"], ["l", "1", "x"], ["m", "1"], ["n"], ["l"]]
        syskeys = [["$SYS", "s"], ["$SYS", "clients"], ["$SYS", "clients", "c1", "clientName"], ["$SYS", "clients", "c2", "graveGoods"],
                   ["$SYS", "clients", "c1", "protocol"], ["$SYS", "x", "y"]]
        connected, tid = set(), {c: 0 for c in clients}
        subs, lss, pubs = [], [], []
        reqs = []
        if sys_targets:
            reqs.append({"op": "set", "key": ["$SYS", "s"], "val": "s1", "c": "int"})
            reqs.append({"op": "psub", "c": "int", "tid": 1, "pat": ["$SYS", "#"], "unique": False, "live": True})
        while len(reqs) < n:
            op = rnd.choices(ops, wts)[0]
            c = rnd.choice(clients)
            if need_connect and c not in connected and op not in ("connect",):
                op = "connect"
            k = rnd.choice(pool)
            if sys_targets and rnd.random() < 0.3 and op in ("set", "cset", "delete", "publish", "spubinit"):
                k = rnd.choice(syskeys)
            if op == "connect":
                if c in connected:
                    continue
                connected.add(c)
                reqs.append({"op": "connect", "c": c, "proto": rnd.choice(["TCP", "UNIX", "WS"]), "addr": "j:null"})
            elif op == "disconnect":
                if c not in connected:
                    continue
                connected.discard(c)
                subs[:] = [x for x in subs if x[0] != c]
                lss[:] = [x for x in lss if x[0] != c]
                pubs[:] = [x for x in pubs if x[0] != c]
                reqs.append({"op": "disconnect", "c": c})
            elif op == "set":
                reqs.append({"op": "set", "key": k, "val": rnd.choice(VALS), "c": c})
            elif op == "cset":
                reqs.append({"op": "cset", "key": k, "val": rnd.choice(VALS), "ver": rnd.choice([0, 0, 1, 1, 2, 3, 5]), "c": c})
            elif op == "delete":
                reqs.append({"op": "delete", "key": k, "c": c})
            elif op == "pdelete":
                p = pattern_of(rnd, k)
                if sys_targets and rnd.random() < 0.4:
                    p = rnd.choice([["?", "s"], ["#"], ["$SYS", "#"], ["?", "#"], ["$SYS", "?"], ["?", "clients"]])
                reqs.append({"op": "pdelete", "pat": p, "c": c})
            elif op == "import":
                reqs.append({"op": "import", "tree": rnd_tree(rnd, pool)})
            elif op == "publish":
                reqs.append({"op": "publish", "key": k, "val": rnd.choice(VALS)})
            elif op == "spubinit":
                tid[c] += 1
                pubs.append((c, tid[c]))
                reqs.append({"op": "spubinit", "tid": tid[c], "key": k, "c": c})
            elif op == "spub":
                t = rnd.choice(pubs)[1] if pubs and rnd.random() < 0.9 else 99
                cc = rnd.choice(pubs)[0] if pubs else c
                reqs.append({"op": "spub", "tid": t, "val": rnd.choice(VALS), "c": cc})
            elif op == "sub":
                tid[c] += 1
                subs.append((c, tid[c]))
                reqs.append({"op": "sub", "c": c, "tid": tid[c], "key": k, "unique": rnd.random() < 0.5, "live": rnd.random() < 0.4})
            elif op == "psub":
                tid[c] += 1
                subs.append((c, tid[c]))
                reqs.append({"op": "psub", "c": c, "tid": tid[c], "pat": pattern_of(rnd, k, illegal=0.04),
                             "unique": rnd.random() < 0.5, "live": rnd.random() < 0.4})
            elif op == "unsub":
                if subs and rnd.random() < 0.9:
                    x = subs.pop(rnd.randrange(len(subs)))
                    reqs.append({"op": "unsub", "c": x[0], "tid": x[1]})
                else:
                    reqs.append({"op": "unsub", "c": c, "tid": 77})
            elif op == "subls":
                tid[c] += 1
                lss.append((c, tid[c]))
                reqs.append({"op": "subls", "c": c, "tid": tid[c], "parent": k[:rnd.randint(0, len(k))]})
            elif op == "unsubls":
                if lss and rnd.random() < 0.9:
                    x = lss.pop(rnd.randrange(len(lss)))
                    reqs.append({"op": "unsubls", "c": x[0], "tid": x[1]})
                else:
                    reqs.append({"op": "unsubls", "c": c, "tid": 78})
            elif op in ("lock", "acquire", "release"):
                reqs.append({"op": op, "key": rnd.choice(lkeys), "c": c})
            elif op == "gg":
                reqs.append({"op": "set", "key": ["$SYS", "clients", c, "graveGoods"], "val": "gg%d" % rnd.randint(0, 4), "c": c})
            elif op == "lw":
                reqs.append({"op": "set", "key": ["$SYS", "clients", c, "lastWill"], "val": "lw%d" % rnd.randint(0, 4), "c": c})
            elif op == "get":
                reqs.append({"op": "get", "key": k})
            elif op == "cget":
                reqs.append({"op": "cget", "key": k})
            elif op == "pget":
                reqs.append({"op": "pget", "pat": pattern_of(rnd, k)})
            elif op == "ls":
                reqs.append({"op": "ls", "parent": k[:rnd.randint(0, len(k))]})
            elif op == "pls":
                p = pattern_of(rnd, k)
                reqs.append({"op": "pls", "pat": p[:rnd.randint(0, len(p))]})
            elif op == "len":
                reqs.append({"op": "len"})
        return {"hdr": True, "meaning": meaning, "proj": True}, reqs
    return gen


gen_c03 = gen_mixed({"set": 20, "cset": 8, "delete": 8, "pdelete": 6, "import": 3, "publish": 8, "sub": 6, "psub": 10,
                     "unsub": 6, "pget": 4})
gen_c05 = gen_mixed({"set": 18, "cset": 10, "delete": 12, "pdelete": 8, "import": 4, "subls": 8, "unsubls": 4, "ls": 8, "pls": 6})
gen_c06 = gen_mixed({"connect": 3, "disconnect": 4, "lock": 14, "acquire": 16, "release": 18, "set": 2}, nclients=4, need_connect=True)
gen_c07 = gen_mixed({"connect": 4, "disconnect": 7, "gg": 8, "lw": 8, "set": 14, "cset": 6, "delete": 3, "psub": 5, "sub": 4,
                     "subls": 3, "lock": 4, "acquire": 4, "release": 3, "spubinit": 3, "spub": 3, "unsub": 2, "pget": 2},
                    nclients=3, need_connect=True)
gen_c08 = gen_mixed({"connect": 3, "disconnect": 5, "gg": 6, "lw": 6, "set": 14, "cset": 8, "delete": 8, "pdelete": 10,
                     "publish": 8, "spubinit": 5, "spub": 6, "pget": 2}, nclients=2, need_connect=True, sys_targets=True)


def enum_c04(depth, nfiles=8):
    """C04: every pattern over {a,b,'',?,#} up to `depth` against a store holding every key
    over {a,b,''} up to `depth`: import all keys, live-only psubscribe of the pattern, touch
    every key (which ones are notified?), pget, pdelete, read the rest back."""
    import itertools
    ksegs, psegs = ["a", "b", ""], ["a", "b", "", "?", "#"]
    keys = [list(k) for d in range(1, depth + 1) for k in itertools.product(ksegs, repeat=d) if list(k) != [""]]
    pats = [list(p) for d in range(1, depth + 1) for p in itertools.product(psegs, repeat=d)]
    nodes = {(): {"k": "none", "v": "", "n": 0}}
    for k in keys:
        for i in range(len(k)):
            nodes.setdefault(tuple(k[:i]), {"k": "none", "v": "", "n": 0})
        nodes[tuple(k)] = {"k": "plain", "v": "v", "n": 0}
    tree = [{"p": list(p), "e": e} for p, e in sorted(nodes.items())]
    files = [[] for _ in range(nfiles)]
    for i, p in enumerate(pats):
        # the pattern under test next to other live subscriptions in the same subscriber tree
        # (a '#' node, a '?' node and a literal branch at the first levels): routing must not
        # depend on what else is subscribed
        w = [{"op": "import", "tree": tree},
             {"op": "psub", "c": "c1", "tid": 1, "pat": p, "unique": False, "live": True},
             {"op": "psub", "c": "c3", "tid": 1, "pat": ["a", "#"], "unique": False, "live": True},
             {"op": "psub", "c": "c3", "tid": 2, "pat": ["?", "b", "#"], "unique": False, "live": True},
             {"op": "psub", "c": "c3", "tid": 3, "pat": ["a", "b", "a"], "unique": False, "live": True},
             {"op": "psub", "c": "c3", "tid": 4, "pat": ["#"], "unique": False, "live": True}]
        w += [{"op": "set", "key": k, "val": "w", "c": "c2"} for k in keys]
        w += [{"op": "pget", "pat": p}, {"op": "pdelete", "pat": p, "c": "c2", "probe": True}, {"op": "pget", "pat": ["#"]}]
        files[i % nfiles].append(w)
    return {"hdr": True, "meaning": {}, "proj": False}, files, len(pats), len(keys)


def gen_c09(rnd, n):
    """stores of every shape, registrations of several clients, restarts in all three layouts"""
    base = gen_mixed({"connect": 3, "gg": 5, "lw": 5, "set": 30, "cset": 14, "delete": 6, "pdelete": 4, "import": 3,
                      "disconnect": 1}, nclients=3, need_connect=True)
    hdr, reqs = base(rnd, n)
    # last wills of different clients must not race for the same key at load time (their
    # order of application is unspecified): give every last-will token its own keys
    for i in range(5):
        hdr["meaning"]["lw%d" % i] = {"gg": [], "lw": [{"k": ["lwk", "t%d" % i, "k%d" % j], "v": "w%d" % rnd.randint(0, 3)}
                                                         for j in range(rnd.randint(1, 3))]}
    # grave goods that cover willed keys: the order "bury, then publish the wills" is observable
    for i in range(5):
        if rnd.random() < 0.6:
            g = hdr["meaning"]["gg%d" % i]["gg"]
            g.insert(rnd.randint(0, len(g) - 1), rnd.choice([["lwk", "#"], ["lwk", "t%d" % rnd.randint(0, 4), "#"], ["lwk", "?", "k0"]]))
    shaped = {'j:{"Cas":[1,2]}': {"gg": [], "lw": [], "cas": {"v": "j:1", "n": 2}},
              'j:{"Cas":["v1",2]}': {"gg": [], "lw": [], "cas": {"v": "v1", "n": 2}},
              'j:{"Cas":[{"x":1},0]}': {"gg": [], "lw": [], "cas": {"v": 'j:{"x":1}', "n": 0}},
              'j:{"Cas":["v3",1000000]}': {"gg": [], "lw": [], "cas": {"v": "v3", "n": 1000000}}}
    hdr["meaning"].update(shaped)
    out = []
    for r in reqs:
        # the order in which the grave goods of DIFFERENT clients are applied at load time is
        # unspecified (HashMap iteration) and matters once the tree holds a value-less node
        # (D_NULL_RELOAD): only c1 registers grave goods here, the others register last wills
        if r["op"] == "set" and r["key"][:2] == ["$SYS", "clients"] and r["key"][-1] == "graveGoods" and r["c"] != "c1":
            r = dict(r, key=r["key"][:3] + ["lastWill"], val="lw%d" % rnd.randint(0, 4))
        if r["op"] in ("set", "cset") and r["key"][0] != "$SYS" and rnd.random() < 0.08:
            r = dict(r, val=rnd.choice(list(shaped)))
        out.append(r)
        if rnd.random() < 0.04:
            out.append({"op": "restart", "layout": rnd.choice(["v3", "v3", "v2", "v1"]), "toggle": rnd.random() < 0.5})
    # after a restart no client is connected: the generator's bookkeeping of connected clients is
    # stale, which only means requests by unconnected ids (the core does not mind)
    return hdr, out


VER_TOP = 2000000000      # = VerTop of Core.tla = u64::MAX in the implementation (harness/src/util.rs)


def gen_c02_boundary(rnd, n):
    """short histories around the largest CAS version (imports put a key there; nothing else can)"""
    out = []
    for i in range(n):
        k = rnd.choice([["cnt"], ["a", "b"], ["c", "d", "e"]])
        start = VER_TOP - rnd.randint(0, 3)
        tree = [{"p": k[:i], "e": {"k": "none", "v": "", "n": 0}} for i in range(len(k))] + [{"p": k, "e": {"k": "cas", "v": "v0", "n": start}}]
        h = [{"op": "import", "tree": tree}, {"op": "cget", "key": k}]
        cur = start
        for j in range(rnd.randint(2, 7)):
            r = rnd.random()
            if r < 0.6:
                h.append({"op": "cset", "key": k, "val": "w%d" % j, "ver": cur, "c": "c1"})
                if cur < VER_TOP:
                    cur += 1
            elif r < 0.75:
                h.append({"op": "cset", "key": k, "val": "x%d" % j, "ver": rnd.choice([0, 1, cur - 1, VER_TOP, VER_TOP - 1]), "c": "c2"})
            elif r < 0.85:
                h.append({"op": "set", "key": k, "val": "plain", "c": "c2"})
            else:
                h.append({"op": "cset", "key": ["fresh", str(j)], "val": "y", "ver": rnd.choice([VER_TOP, VER_TOP - 1, 1]), "c": "c2"})
            h.append({"op": "cget", "key": k})
        h.append({"op": "get", "key": k})
        out.append(h)
    return {"hdr": True, "meaning": {}, "proj": True}, out


def gen_c08x(rnd, n):
    """extended monitoring on: sessions, subscriptions of every kind (same key twice, wildcard patterns,
    $SYS patterns, the catch-all), locks with waiters, disconnects of holders and of waiters"""
    clients = ["c1", "c2", "c3"]
    keys = [["a"], ["a", "b"], ["b"], ["k", "x"]]
    pats = [["a", "?"], ["#"], ["a", "#"], ["?", "b"], ["$SYS", "#"], ["$SYS", "locks", "#"], ["?"]]
    reqs, connected = [], set()
    tid = {c: 0 for c in clients}
    subs = {c: [] for c in clients}
    for _ in range(n):
        c = rnd.choice(clients)
        if c not in connected:
            connected.add(c)
            reqs.append({"op": "connect", "c": c, "proto": rnd.choice(["TCP", "WS"]), "addr": "j:null"})
            continue
        r = rnd.random()
        k = rnd.choice(keys)
        if r < 0.14:
            tid[c] += 1
            subs[c].append(tid[c])
            reqs.append({"op": "sub", "c": c, "tid": tid[c], "key": k, "unique": rnd.random() < 0.5, "live": rnd.random() < 0.7})
        elif r < 0.28:
            tid[c] += 1
            subs[c].append(tid[c])
            reqs.append({"op": "psub", "c": c, "tid": tid[c], "pat": rnd.choice(pats), "unique": rnd.random() < 0.5, "live": rnd.random() < 0.7})
        elif r < 0.42:
            t = subs[c].pop(rnd.randrange(len(subs[c]))) if subs[c] and rnd.random() < 0.85 else 99
            reqs.append({"op": "unsub", "c": c, "tid": t})
        elif r < 0.52:
            reqs.append({"op": "lock", "key": k, "c": c})
        elif r < 0.64:
            reqs.append({"op": "acquire", "key": k, "c": c})
        elif r < 0.76:
            reqs.append({"op": "release", "key": k, "c": c})
        elif r < 0.86:
            reqs.append({"op": "set", "key": k, "val": rnd.choice(["v1", "v2"]), "c": c})
        elif r < 0.9:
            reqs.append({"op": "pget", "pat": ["$SYS", "#"]})
        else:
            connected.discard(c)
            subs[c] = []
            reqs.append({"op": "disconnect", "c": c})
    return {"hdr": True, "meaning": {}, "proj": True}, reqs


def gen_c17_core(rnd, n):
    """histories only the core API can produce that take the core task down in a debug build:
    the largest CAS version (import) and a plain null value across a restart"""
    hdr, out = gen_c02_boundary(rnd, max(2, n // 2))
    for i in range(max(2, n // 2)):
        k = rnd.choice([["a", "b"], ["n"], ["c", "d", "e"]])
        h = [{"op": "set", "key": k, "val": "j:null", "c": "c1"}, {"op": "set", "key": ["keep"], "val": "v1", "c": "c1"},
             {"op": "restart", "layout": "v3", "toggle": rnd.random() < 0.5}, {"op": "get", "key": k}, {"op": "get", "key": ["keep"]}]
        for j in range(rnd.randint(1, 4)):
            h.append(rnd.choice([{"op": "delete", "key": ["keep"], "c": "c1"}, {"op": "pdelete", "pat": ["?"], "c": "c1"},
                                 {"op": "set", "key": ["x", str(j)], "val": "v2", "c": "c2"}, {"op": "delete", "key": k, "c": "c2"}]))
        h.append({"op": "get", "key": ["keep"]})
        out.append(h)
    return hdr, out
