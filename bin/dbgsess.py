#!/usr/bin/env python3
"""debug helper: run one session scenario (replay file), print the logs and the validation verdicts"""
import sys, os, json
sys.path.insert(0, os.path.dirname(os.path.abspath(__file__)))
import vlib, sess
pl = json.load(open(sys.argv[1]))
sc = pl["scenario"] if isinstance(pl["scenario"], dict) else pl["scenario"][0]
d = vlib.workdir("dbg")
path = os.path.join(d, "sc.ndjson")
open(path, "w").write(json.dumps({"hdr": True, "meaning": pl.get("meaning", {})}) + "\n" + json.dumps(sc) + "\n")
vlib.run_harness(["client-run" if "tasks" in sc else "sock-run", path, os.path.join(d, "raw.ndjson"), os.path.join(d, "sock")])
n = sess.postprocess(os.path.join(d, "raw.ndjson"), os.path.join(d, "tr.ndjson"))
o = json.loads(open(os.path.join(d, "tr.ndjson")).read().splitlines()[1])
for name, v in o["sessions"].items():
    print("==", name)
    for i, r in enumerate(v["log"]):
        rr = {k: x for k, x in r.items() if k not in ("c",)}
        print("  %2d %s" % (i + 1, json.dumps(rr)[:260]))
print("streams", json.dumps(o["streams"])[:1500])
print("exact", o["exact"], "extra", o["extra"])
for flags, ref in (([], True), (vlib.known_flags(), False)):
    ok, det = sess.validate_once(d, os.path.join(d, "tr.ndjson"), flags, ref)
    print("Dev=", flags, "->", "ACCEPTED" if ok else "REJECTED", {k: v for k, v in det.items() if k != "tail"})
