#!/usr/bin/env python3
"""Regenerates /verif/MANIFEST.json from the table below."""
import json, os, sys
sys.path.insert(0, os.path.dirname(os.path.abspath(__file__)))

BASELINE = "cd /repo && cargo nextest run --workspace --no-fail-fast --tool-config-file pb:/w/lib/nextest.toml --profile pb --test-threads 8 --offline || cargo test --workspace --no-fail-fast --offline"

CORE_NOTE = ("Trusted: TLC 1.8, the harness' projection of observations (util.rs/core_drv.rs), serde_json. Assumes requests are "
             "applied one at a time (single core task), values are opaque tokens, extended monitoring off, bounds of the MC config; "
             "random histories sample, they do not enumerate.")

def core(pid, sec, text):
    return dict(property_id=pid, quick_cmd=f"bin/check {pid} quick", thorough_cmd=f"bin/check {pid} thorough",
                evidence_file=f"evidence/{pid}.json", replay_cmd_template=f"bin/check {pid} --replay {{path}}",
                engine="tlc-core",
                level_claimed=dict(category="model_checking", text=text, design_ref=sec),
                level_note=CORE_NOTE,
                technique="TLA+ spec (Core/CoreSpec) checked by TLC; edge-covering replay of the bounded state graph into the real core and TLC trace validation of recorded traces")

SESS_NOTE = ("Trusted: TLC, the socket harness (sock_drv.rs: classification of server messages by transaction id, logical clock), the "
             "post-processing in bin/sess.py (real-time order, removal of server-maintained $SYS information). Unix socket transport only; "
             "schedules are sampled (concurrent runs), the linearizability decision per recorded execution is exhaustive.")

def session(pid, sec, text):
    c = core(pid, sec, text)
    c["engine"] = "tlc-session"
    c["level_note"] = SESS_NOTE
    c["technique"] = "TLA+ spec (Session over CoreSpec) checked by TLC; real concurrent sessions over the unix socket; per-session logs validated by a position-vector linearizability search in TLC"
    return c

def persist(pid, sec, text):
    c = core(pid, sec, text)
    c["engine"] = "tlc-persist"
    c["technique"] = "TLA+ spec (Persist) checked by TLC; crash-point enumeration on the real flush/load code with file-system step tracing, traces validated by TLC"
    c["level_note"] = ("Trusted: TLC, the fs_step hooks (placed after each file operation of v3.rs), the harness' generation encoding. Process-crash "
                       "model only (completed operations persist in order; torn *.tmp only); no power-loss reordering; v1/v2 directories only as fallbacks of an empty v3 directory.")
    return c

CHECKS = [
 core("C01", "6/C01", "TLC exhaustively checks on the implementation-shaped tree model that every read equals the flat map of accepted writes and that errors change nothing (bounded universe); every edge of that graph is replayed into the real core with a full read-back after each step and random long histories are validated by TLC against the same spec."),
 core("C03", "6/C03", "TLC checks delivered events = expected events (reference layer: one event per touched matching key, in order, unique filter) and fold(snapshot, events) = pget for every interleaving of subscribe/unsubscribe with writes in the bounded universe; the same is validated on traces of the real core, and on socket sessions (subscribers subscribing and unsubscribing next to two writers; streams flushed by markers must be exactly what the specification delivers)."),
 core("C05", "6/C05", "TLC checks ls/pls = next segments of stored keys and last delivered ls-notification = current listing in every reachable state of the bounded universe; edge replay and random histories validated against the spec."),
 core("C06", "6/C06", "TLC checks one holder, first-come hand-over, exactly-once confirmation and session-end clean-up over all interleavings of lock/acquire/release/disconnect for 2-3 clients and 2 keys; traces of the real core validated."),
 core("C07", "6/C07", "TLC checks the session-end procedure (six ordered sub-steps) against the reference effect on the flat map, events of other subscribers and the frame condition; traces of the real core validated."),
 core("C04", "6/C04", "TLC evaluates for every pattern over {a,b,'',?,#} up to depth 3 (quick) / 4 (thorough), on a store holding every key up to that depth, that store collect (pget), store delete (pdelete) and the subscriber walk (notification) agree with the documented relation and reject illegal patterns; the real core answers the same exhaustive table and TLC validates the recorded trace."),
 core("C09", "6/C09", "A restart through the JSON persistence (flush, optional re-layout into the v2/v1 schemas in both toggle states, load with registrations applied) is an action of the core specification; TLC checks on the bounded universe that every user key keeps value, kind and version, nothing under $SYS survives and the registrations are applied; the real flush/load code performs the restarts of the replayed walks and random histories and TLC validates the traces."),
 core("C08", "6/C08", "TLC checks that no request of an ordinary client changes a protected $SYS key or makes a $SYS subscriber see a foreign value, over the product of request kinds and key/pattern shapes; traces of the real core validated. A second configuration switches the server's extended monitoring on (model constant ExtMon): the bookkeeping requests for $SYS/subscriptions, the per-client subscription keys, $SYS/locks and the connection time are part of the specification, TLC checks the structural invariants and that $SYS/locks names exactly the holders, and edge replay plus random histories run against a real core with extended monitoring."),
]

CHECKS.append(persist("C10", "6/C10", "TLC explores every interleaving of mutation, the file-system steps of a flush, a crash between any two of them and the steps of the load chain (which itself moves the slot selector) and checks that a start recovers the last completed or the in-progress snapshot with registrations of the same snapshot; the real code is crashed after every file-system step (single, double, in-load) and every recorded step and recovered generation is validated against the spec."))

CHECKS += [
 session("C02", "6/C02", "TLC enumerates every interleaving of cget->cset cycles of 2-3 clients plus stale/future-version csets and plain sets on the contended key (one winner per version, no lost update, acceptance iff version matches via the reference layer); 2-4 unsynchronised real sessions run such cycles over the socket and TLC decides whether some atomic order of the requests explains every reply and the subscriber's event stream. Core histories around the largest version (imports put a key there; u64::MAX is mapped onto the top of the specification's integer range) are executed by the real core and validated against the core specification."),
 session("C13", "6/C13", "TLC checks on the session-layer model that every well-formed request on an established session gets exactly one terminal message of the kind the protocol assigns; real sessions send all message kinds of v0 and v1 with valid and invalid arguments, pipelined, 1-3 at a time; terminal messages are paired with requests by transaction id, their kind and content and every event stream are validated against the spec."),
 session("C15", "6/C15", "The containment of a requested pattern in a granted one is decided exhaustively: for every pair (legal grant, requested pattern) over {a,b,?,#} up to depth 3 (quick) / 4 (thorough) TLC checks that the transcription of auth::pattern_matches is sound (everything the requested pattern can reach is covered by the grant) and complete for keys, and the real function answers the same table (trace validated against the transcription). TLC checks the authorization gate, the refusal of requests outside the grants and that served requests touch only keys covered by the grants (documented relation); real sessions with minted tokens (valid grant sets, missing, garbage, forged, expired) mix authorised and unauthorised requests while an unrestricted observer reads the store back; clients of the REST API carry tokens of their own on every request; validated by TLC."),
 session("C17", "6/C17", "The developers' debug assertions are state invariants of the core model (clean trees, never down) checked by TLC over every alphabet; offender sessions send odd requests in any order and a catalogue of undecodable lines (and odd requests through the REST API) while a witness session's round trips must keep being answered correctly (debug build; a panic of the core task is an observation the spec cannot explain)."),
]

c16 = core("C16", "6/C16", "TLC checks the aggregator step machine (flag, two ordered buffers, outstanding sleep tasks, one-slot tick channel, select! race) for every arrival sequence within the bounds: nothing lost, duplicated or reordered, no event older than the interval, a pending flush for every non-empty buffer, and (thorough) every event eventually sent under weak fairness; the real PStateAggregator runs on tokio's paused clock and TLC decides whether the recorded batches and their virtual send times are a behaviour of the spec. On live sessions (socket) aggregated pattern subscriptions run next to writers; what the subscriber receives must be, key by key, the event sequence the core specification delivers to that subscription (snapshot first, nothing lost, duplicated or reordered, one kind and no key twice per batch).")
c16["engine"] = "tlc-aggregator"
c16["technique"] = "TLA+ spec (Aggregator) checked by TLC incl. liveness; paused-clock execution of the real aggregator validated by TLC with internal steps inferred"
c16["level_note"] = "Trusted: TLC, tokio's paused clock, the agg_drv harness, the socket harness for the live-session part. Virtual time in 1 ms steps; client channel never full; on live sessions content and per-key order are compared (batch timing only on the aggregator alone)."
CHECKS.append(c16)

def cluster(pid, sec, text):
    c = core(pid, sec, text)
    c["engine"] = "tlc-cluster"
    c["technique"] = "TLA+ spec (Cluster over Core) checked by TLC; real leader/follower servers over the TCP sync port, marker-key quiescence, read-back validated by TLC"
    c["level_note"] = ("Trusted: TLC, the cluster harness (in-process servers, WbApi handles, marker key), util.rs projections. Leader loss only at quiescent "
                       "points; one leader, 1-2 followers; the orchestrator's own stop/start sequence is imitated (graceful shutdown, restart with role flags).")
    return c
CHECKS += [
 cluster("C11", "6/C11", "TLC explores every join point and every interleaving of forwarding (before applying), the two internal registration subscriptions, and follower application for 1-2 followers: whenever a follower's channel is empty its user keys, kinds, versions and the registrations of connected clients equal the leader's; direct writes to a follower are refused. Random leader histories on real servers are validated against the model."),
 cluster("C12", "6/C12", "TLC checks that after leader loss at a quiescent point, graceful stop and restart of a follower as leader, every replicated user key is served and the grave goods / last wills of all clients connected to the old leader are applied; real runs promote a follower configured from the role flags alone and the recovered state is validated."),
]

c18 = core("C18", "6/C18", "TLC checks the writer / batcher / crash / load model of the ReDB backend for every interleaving of enqueueing, writer transactions and stops within the bounds: the recovered state is the state after a prefix of the applied changes (the committed one; all of them after a clean stop), registrations applied, versions kept. Real servers with the ReDB backend are stopped abruptly or cleanly after seeded histories and TLC decides whether some prefix explains what a second server on the same file recovered.")
c18["engine"] = "tlc-redb"
c18["technique"] = "TLA+ spec (Redb) checked by TLC; real ReDB-backed servers stopped abruptly/cleanly, recovered state validated by TLC as a prefix cut of the replayed history"
c18["level_note"] = "Trusted: TLC, redb's own commit atomicity, the harness (runtime drop as process death). Cuts inside a redb commit are not produced; grave goods of one client only; values that collide with the file format (C09's findings) are avoided."
CHECKS.append(c18)

c20 = session("C20", "6/C20", "The real worterbuch_client library is connected over a unix socket to an in-process server; its handle is cloned to 2-4 tasks whose concurrent calls (all request kinds, typed and generic, awaited and fire-and-forget, publish streams, the four unsubscribe variants each followed by a server-side probe of the subscription) are recorded per task and TLC decides whether some interleaving of the calls on the one connection explains every result, event stream and probe (Trace_Session with task logs sharing a client). The send buffer has its own implementation-shaped TLA+ model (hand-over channels, two buffers, delayed tasks, command queue) that TLC checks exhaustively for 'only the latest value per key leaves, as the kind it was handed in, nothing else, every buffered value has its timer' plus liveness; the real buffer runs on tokio's paused clock against a recording WbApi and TLC explains the observations with inferred internal steps.")
c20["engine"] = "tlc-client"
c20["technique"] = "TLA+ specs (Session over CoreSpec for the calls; SendBuffer for the buffer) checked by TLC; real client library driven by concurrent tasks / paused clock, task logs and send observations validated by TLC"
c20["level_note"] = ("Trusted: TLC, the client harness (client_drv.rs: mapping of API results to the reply vocabulary, logical clock, marker flush), bin/sess.py. "
                     "Unix socket transport and local_client_wrapper only; acquire_lock, spub, last-will helpers not driven; schedules are sampled.")
CHECKS.append(c20)

c19 = core("C19", "6/C19", "TLC explores Election.tla - the phases in which the election code blocks on its socket, the inbox, the vote counter with its de-duplication list, every timeout as a free step - against an environment that may send any datagram at any time (votes of members, non-members and the node itself, duplicated, unsolicited; vote requests of better/equal/worse priority; heartbeats of anybody) and checks on every step that a start in leader mode has the quorum of the running round behind it (distinct configured peers, reference counter) and a start in follower mode goes to a configured peer whose heartbeat was received; the configuration itself changes at run time (config file rewritten, watcher, capacity-one channel, election rounds restarting with the new peers and the recomputed default quorum). Real orchestrator processes (cluster sizes 1-7, default and configured quorums, refused configurations, config files replaced while the node is a candidate, leader or follower) are run against scripted UDP peers and a stub server executable; TLC explains each process' datagrams and server starts/stops as a behaviour of the specification with receive / timeout / heartbeat steps inferred.")
c19["engine"] = "tlc-election"
c19["technique"] = "TLA+ spec (Election) checked by TLC with C19 as step properties; black-box orchestrator processes against scripted UDP peers and a stub server, observations validated by TLC (trace validation with inferred internal steps)"
c19["level_note"] = ("Trusted: TLC, the python peer harness (bin/orch.py: order of its own log, argv of the stub), loopback UDP (ordered, lossless). Safety only; "
                     "run-time configuration changes and priorities derived from the data directory are not exercised; schedules of the real process are sampled.")
CHECKS.append(c19)

PENDING = []

def main():
    import props
    na = [dict(property_id="C14", reason="encode/decode round-trip fidelity over the JSON value space is a property of a pure function pair; a state-transition specification and TLC (32-bit ints, no floats) cannot decide it (DESIGN.md 6/C14)")]
    checks = [c for c in CHECKS if c["property_id"] in props.CHECKS]
    for p in PENDING:
        if p not in props.CHECKS:
            na.append(dict(property_id=p, reason="specification and conformance harness for this property are not built yet in this revision (see DESIGN.md section 10 for the order of work)"))
    m = dict(version=1,
             setup_cmd="bin/setup",
             hooks=dict(guard="cargo feature `verif` of crate worterbuch (off by default)",
                        enable="the harness crate /verif/harness depends on /repo/worterbuch with default-features=false, features=[\"verif\",\"redb\"]",
                        baseline_off_cmd=BASELINE,
                        source_commits=["e19d4a5", "8c537d5", "d18b355"], add_only=True),
             engines=[dict(name="tlc-election", path="spec/Election.tla spec/Trace_Election.tla spec/MC_C19.tla bin/orch.py harness/src/bin/wborch.rs",
                           serves_properties=["C19"], kind_free_text="TLA+ model of one orchestrator node in a hostile environment; TLC; black-box process runs validated by TLC"),
                      dict(name="tlc-client", path="spec/SendBuffer.tla spec/Trace_Buffer.tla spec/MC_C20buf.tla spec/Trace_Session.tla harness/src/client_drv.rs",
                           serves_properties=["C20"], kind_free_text="client library over a real socket: task logs linearized by TLC; send buffer model + paused-clock trace validation"),
                      dict(name="tlc-redb", path="spec/Redb.tla spec/Trace_Redb.tla harness/src/redb_drv.rs",
                           serves_properties=["C18"], kind_free_text="TLA+ model of queue, batching writer, crash and load; TLC; prefix-cut validation of real recoveries"),
                      dict(name="tlc-cluster", path="spec/Cluster.tla spec/Trace_Cluster.tla spec/MC_C11.tla harness/src/cluster_drv.rs",
                           serves_properties=["C11", "C12"], kind_free_text="TLA+ model of leader, command channels, followers, promotion; TLC; real multi-server runs validated"),
                      dict(name="tlc-aggregator", path="spec/Aggregator.tla spec/Trace_Aggregator.tla harness/src/agg_drv.rs",
                           serves_properties=["C16"], kind_free_text="TLA+ step machine with discrete time, TLC safety+liveness, paused-clock trace validation"),
                      dict(name="tlc-session", path="spec/Session.tla spec/Trace_Session.tla spec/MC_Session.tla spec/MC_C02.tla harness/src/sock_drv.rs bin/sess.py",
                           serves_properties=["C02", "C13", "C15", "C17"], kind_free_text="session-layer TLA+ model, TLC, socket-level concurrent sessions, position-vector linearizability validation"),
                      dict(name="tlc-persist", path="spec/Persist.tla spec/Trace_Persist.tla harness/src/persist_drv.rs",
                           serves_properties=["C10"], kind_free_text="TLA+ step machine of the flush / crash / load chain, TLC, crash-point enumeration with step tracing"),
                      dict(name="tlc-core", path="spec/Core.tla spec/CoreSpec.tla spec/Trace_Core.tla harness/src/core_drv.rs bin/check",
                           serves_properties=[c["property_id"] for c in checks],
                           kind_free_text="explicit TLA+ specification, TLC exhaustive model checking, spec->impl edge replay and impl->spec trace validation")],
             checks=checks, not_applicable=na,
             notes="See DESIGN.md. Known findings: known_findings.json (read-only at run time).")
    json.dump(m, open(os.path.join(os.path.dirname(os.path.dirname(os.path.abspath(__file__))), "MANIFEST.json"), "w"), indent=1)

if __name__ == "__main__":
    main()
