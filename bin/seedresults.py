#!/usr/bin/env python3
"""Builds seeded/RESULTS.json from the logs of the seed runs (work/seedlogs/summary*.txt): per seeded change which
checks were run against it (mutated scratch worktree /tmp/mut/repo via bin/seedrun), with which outcome, and
whether the demonstration was confirmed (bin/seedconfirm).  Hand-written notes are kept."""
import json, os, re, glob
ROOT = os.path.dirname(os.path.dirname(os.path.abspath(__file__)))
path = os.path.join(ROOT, "seeded", "RESULTS.json")
res = json.load(open(path)) if os.path.exists(path) else {}
NOTES = {
    "C17_m1": "first two runs: missed by C17 (1 of 24 scenarios had a root ls-subscription; and a server that died was explained as every client closing); C17 strengthened: server-initiated closes need a reason in the specification, more (root) ls-subscriptions; re-run: caught",
    "C17_m2": "first three runs: missed by C17 (the specification could put the session's end after the witness' last look); strengthened: the end of a session is processed within a grace period after its connection ended, the witness pauses and then takes stock (session count, locks); re-run: caught",
    "C15_m1": "caught in the first run, missed in a second one (needed a token that leaves the delete privilege out AND a delete request under a write grant: rare in the random scenarios); C15 strengthened with deterministic missing-privilege scenarios; re-run: caught",
    "C02_m2": "a change in the client library's update/swap: the server-side check C02 cannot see it; C20 drives swap under contention and catches it",
    "C18_m1": "C18 was extended (tiny writer queue, bursts without pauses) after reading the seed's description and before its first run",
    "C18_m2": "C18 was extended (grave goods that cover willed keys) after reading the seed's description and before its first run",
    "C16_m2": "C16's schedules were extended with repeated values after reading the seed's description; the first run was aborted (linear search for the failing schedule), the check now bisects",
    "C04_m2": "first run: missed by C04 (caught by C03); C04 strengthened with background subscriptions next to the pattern under test; re-run: caught by C04",
    "C10_m2": "first run: missed by C10; C10 extended with repeated content (mutate-to an earlier generation: ABA of the checksum file); re-run: caught",
    "C09_m1": "first run: missed by C09 (no willed key lay inside a buried sub tree); MC_C09 and the generator changed so that grave goods cover willed keys; re-run: caught",
}
order = sorted(glob.glob(os.path.join(ROOT, "work", "seedlogs", "summary*.txt")), key=lambda p: (len(p), p))
nulls = res.get("_null_runs", {})
for f in order:
    for line in open(f):
        m = re.match(r"(\S+) rc=(\d+)", line)
        if m:
            name, rc = m.group(1), int(m.group(2))
            if name.startswith("null_"):
                nulls[name[5:].rstrip("b")] = "exit %d" % rc
                continue
            mm = re.match(r"(C\d+_m\d+)(?:_via_(C\d+))?$", name)
            if not mm:
                continue
            seed, check = mm.group(1), mm.group(2) or mm.group(1).split("_")[0]
            r = res.setdefault(seed, {})
            runs = [x for x in r.get("runs", []) if x["check"] != check]
            outcome = {0: "missed (exit 0)", 1: "VIOLATION reported (exit 1)", 2: "tool error (exit 2)", 3: "patch did not apply"}.get(rc, "exit %d" % rc)
            runs.append({"check": check, "cmd": f"bin/seedrun seeded/{seed}/patch.diff {check} quick", "outcome": outcome})
            r["runs"] = runs
        m = re.match(r"(\S+) confirm: (.*)", line)
        if m:
            res.setdefault(m.group(1), {})["confirm"] = m.group(2).strip()
for seed in sorted(os.listdir(os.path.join(ROOT, "seeded"))):
    lg = os.path.join(ROOT, "work", "seedlogs", seed + ".confirm.log")
    if os.path.isdir(os.path.join(ROOT, "seeded", seed)) and os.path.exists(lg):
        last = open(lg).read().strip().splitlines()[-1:] or [""]
        if "CONFIRMED" in last[0]:
            res.setdefault(seed, {})["confirm"] = last[0].strip()
# the exact confirmation commands (from the batch scripts that ran them)
for f in sorted(glob.glob(os.path.join(ROOT, "work", "seedbatch*.sh"))):
    for line in open(f):
        m = re.match(r"confirm (seeded/(C\d+_m\d+).*)$", line.strip())
        if m:
            res.setdefault(m.group(2), {})["confirm_cmd"] = "bin/seedconfirm " + m.group(1)
for seed, r in res.items():
    if seed.startswith("_"):
        continue
    r["detected_by"] = sorted({x["check"] for x in r.get("runs", []) if x["outcome"].startswith("VIOLATION")})
    r["missed_by"] = sorted({x["check"] for x in r.get("runs", []) if x["outcome"].startswith("missed")})
    if seed in NOTES:
        r["notes"] = NOTES[seed]
res["_null_runs"] = nulls
json.dump(res, open(path, "w"), indent=1, sort_keys=True)
print(json.dumps({k: (v.get("detected_by"), v.get("missed_by"), v.get("confirm")) for k, v in res.items() if not k.startswith("_")}, indent=0))
