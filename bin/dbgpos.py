#!/usr/bin/env python3
"""after bin/dbgsess.py: dump the state graph of the (pass 2) validation and show where it got stuck"""
import re, json, os, subprocess, sys
d = os.path.join(os.environ.get("VERIF_WORK", "/verif/work"), "dbg")
vs = sorted([x for x in os.listdir(d) if x.startswith("vs_")], key=lambda x: os.path.getmtime(os.path.join(d, x)))[-1]
env = dict(os.environ, TRACE=d + "/tr.ndjson", JAVA_TOOL_OPTIONS="-Xss1g -Dtlc2.tool.queue.IStateQueue=StateDeque")
subprocess.run(["tlc", "-workers", "1", "-dump", d + "/states", "-config", "Trace_Session_run.cfg", "Trace_Session.tla"],
               cwd=os.path.join(d, vs), env=env, stdout=subprocess.DEVNULL, stderr=subprocess.DEVNULL)
txt = open(d + "/states.dump").read()
best = None
states = txt.split("State ")
for st in states:
    m = re.search(r"/\\ pos = \[(.*?)\]", st)
    if not m:
        continue
    p = {k: int(v) for k, v in re.findall(r"(\w+) \|-> (\d+)", m.group(1))}
    s = sum(p.values())
    if best is None or s > best[0]:
        best = (s, p, st)
print("deepest:", best[0], best[1])
o = json.loads(open(d + "/tr.ndjson").read().splitlines()[1])
for s, p in best[1].items():
    log = o["sessions"][s]["log"]
    print(" next of", s, ":", json.dumps(log[p - 1])[:400] if p <= len(log) else "done")
m = re.search(r"/\\ cons = (.*?)\n/\\", best[2], re.S)
print(" cons:", m.group(1)[:300] if m else None)
for k, v in o["streams"].items():
    print(" stream", k, len(v), [(e["t"], [("/".join(kv[0])[:24], kv[1]) for kv in e["kvs"]][:4]) for e in v][:16])
if "--state" in sys.argv:
    print(best[2][:6000])
