#!/usr/bin/env python3
"""bin/selftest.py: demonstrates that the specifications are bound to the code.

For the main trace kinds a small history is executed by the real code and validated (must be accepted);
then ONE recorded field is corrupted and the trace is validated again (must be rejected).  A trace
specification that accepted the corrupted recording would constrain nothing.  Exit 0 if every pair behaves
that way, 1 otherwise.  (Not a property check: no evidence, no VIOLATION lines.)"""
import sys, os, json, random, copy
sys.path.insert(0, os.path.dirname(os.path.abspath(__file__)))
import vlib, props, gens, sess, orch
from vlib import log

d = vlib.workdir("selftest")
vlib.build_harness()
bad = []


def expect(name, accepted, want):
    ok = accepted == want
    log(f"  {name}: {'accepted' if accepted else 'rejected'}  {'ok' if ok else '<-- UNEXPECTED'}")
    if not ok:
        bad.append(name)


def core():
    log("core trace (Trace_Core)")
    hdr, reqs = gens.gen_c01(random.Random(5), 300)
    req = os.path.join(d, "req_core.ndjson")
    open(req, "w").write(json.dumps(hdr) + "\n" + "".join(json.dumps(r) + "\n" for r in reqs))
    tr = os.path.join(d, "tr_core.ndjson")
    vlib.run_harness(["core-run", req, tr])
    known = vlib.known_flags()
    r = vlib.validate(d, "Trace_Core", props.TRACE_CFG, tr, props.CORE_TRACE_INV, known, 600)
    expect("recorded trace", r["status"] in ("ok", "known"), True)
    lines = open(tr).read().splitlines()
    # corrupt the value of one successful get
    for i, l in enumerate(lines[1:], 1):
        j = json.loads(l)
        if j.get("op") == "get" and j.get("rep", {}).get("t") == "val":
            j["rep"]["v"] = "corrupted"
            lines[i] = json.dumps(j)
            break
    tr2 = os.path.join(d, "tr_core_bad.ndjson")
    open(tr2, "w").write("\n".join(lines) + "\n")
    r = vlib.validate(d, "Trace_Core", props.TRACE_CFG, tr2, props.CORE_TRACE_INV, known, 600)
    expect("one get answer changed", r["status"] in ("ok", "known"), False)
    # drop one delivered event
    lines = open(tr).read().splitlines()
    for i, l in enumerate(lines[1:], 1):
        j = json.loads(l)
        if j.get("proj") and j.get("op") == "set" and j.get("rep", {}).get("t") == "ok":
            j["proj"]["len"] += 1
            lines[i] = json.dumps(j)
            break
    open(tr2, "w").write("\n".join(lines) + "\n")
    r = vlib.validate(d, "Trace_Core", props.TRACE_CFG, tr2, props.CORE_TRACE_INV, known, 600)
    expect("entry count off by one", r["status"] in ("ok", "known"), False)


def session():
    log("session trace (Trace_Session)")
    scs = sess.gen_c13(random.Random(7), "quick")[:3]
    path = os.path.join(d, "sc_sess.ndjson")
    open(path, "w").write(json.dumps({"hdr": True, "meaning": {}}) + "\n" + "".join(json.dumps(s) + "\n" for s in scs))
    raw = os.path.join(d, "raw_sess.ndjson")
    vlib.run_harness(["sock-run", path, raw, os.path.join(d, "sock")])
    tr = os.path.join(d, "tr_sess.ndjson")
    sess.postprocess(raw, tr)
    known = vlib.known_flags()
    r = sess.validate(d, tr, known, 600)
    expect("recorded sessions", r["status"] in ("ok", "known"), True)
    lines = open(tr).read().splitlines()
    done = False
    for i, l in enumerate(lines[1:], 1):
        sc = json.loads(l)
        for name, v in sc["sessions"].items():
            for rec in v["log"]:
                if rec.get("rep", {}).get("t") == "ok" and rec.get("op") in ("set", "lock", "sub", "psub"):
                    rec["rep"] = {"t": "err", "code": 5, "m": "err"}
                    done = True
                    break
            if done:
                break
        if done:
            lines[i] = json.dumps(sc)
            break
    tr2 = os.path.join(d, "tr_sess_bad.ndjson")
    open(tr2, "w").write("\n".join(lines) + "\n")
    r = sess.validate(d, tr2, known, 600)
    expect("one Ack turned into an Err", r["status"] in ("ok", "known"), False)


def rest_and_agg():
    log("REST API session and aggregated subscription (Trace_Session)")
    sc = {"rest": True, "sessions": {
        "c1": [{"op": "psub", "c": "c1", "pat": ["a", "#"], "unique": False, "live": True, "agg": 1, "tid": 1, "wait": True},
               {"op": "set", "c": "c1", "key": ["a", "b"], "val": "v1", "tid": 2, "wait": True}, {"op": "barrier", "n": 0}, {"op": "barrier", "n": 1}],
        "rest1": [{"op": "barrier", "n": 0}, {"op": "get", "key": ["a", "b"]}, {"op": "get", "key": ["a", "zz"]}, {"op": "set", "key": ["a", "c"], "val": "v2"},
                  {"op": "set", "key": ["a", "c"], "val": "v3"}, {"op": "pdelete", "pat": ["a", "?"]}, {"op": "barrier", "n": 1}]}}
    path = os.path.join(d, "sc_rest.ndjson")
    open(path, "w").write(json.dumps({"hdr": True, "meaning": {}}) + "\n" + json.dumps(sc) + "\n")
    raw = os.path.join(d, "raw_rest.ndjson")
    vlib.run_harness(["sock-run", path, raw, os.path.join(d, "sock")])
    tr = os.path.join(d, "tr_rest.ndjson")
    sess.postprocess(raw, tr)
    known = vlib.known_flags()
    r = sess.validate(d, tr, known, 600)
    expect("recorded REST requests and aggregated stream", r["status"] in ("ok", "known"), True)
    lines = open(tr).read().splitlines()
    o = json.loads(lines[1])
    for rec in o["sessions"]["rest1"]["log"]:
        if rec.get("rep", {}).get("t") == "herr":
            rec["rep"]["status"] = 400           # NoSuchValue is 404
            break
    tr2 = os.path.join(d, "tr_rest_bad.ndjson")
    open(tr2, "w").write(lines[0] + "\n" + json.dumps(o) + "\n")
    r = sess.validate(d, tr2, known, 600)
    expect("HTTP status of one REST answer changed", r["status"] in ("ok", "known"), False)
    o = json.loads(lines[1])
    x = o["aggs"][0]
    # one event of the aggregated stream lost (the first set of a/c)
    o["aggflat"][x] = [e for e in o["aggflat"][x] if not (e[1] == ["a", "c"] and e[2] == "v2")]
    for b in o["streams"][x]:
        b["kvs"] = [kv for kv in b["kvs"] if not (kv[0] == ["a", "c"] and kv[1] == "v2")]
    o["streams"][x] = [b for b in o["streams"][x] if b["kvs"]]
    open(tr2, "w").write(lines[0] + "\n" + json.dumps(o) + "\n")
    r = sess.validate(d, tr2, known, 600)
    expect("one event of the aggregated stream removed", r["status"] in ("ok", "known"), False)


def election():
    log("election trace (Trace_Election)")
    import hashlib, shutil
    cfg = {"me": "n1", "peers": ["n2", "n3"], "foreign": ["x8"], "quorum": -1, "prio": 100, "suicide": True}
    steps = [{"do": "await", "what": "voteReq", "ms": 1500}, {"do": "send", "from": "n2", "m": {"t": "voteResp", "id": "n2"}},
             {"do": "await", "what": "proc", "ms": 1500}, {"do": "sleep", "ms": 100}]
    evs = orch.run_scenario(cfg, steps, d, "self")

    def val(trace):
        sub = os.path.join(d, "ve_" + hashlib.md5(trace.encode()).hexdigest()[:8])
        os.makedirs(sub, exist_ok=True)
        for f in os.listdir(d):
            if f.endswith(".tla"):
                shutil.copy(os.path.join(d, f), sub)
        env = dict(vlib.TRACE_ENV, TRACE=trace)
        out = vlib.tlc(sub, "Trace_Election", props.ELECTION_TRACE_CFG.replace("@AHEAD@", "8"), workers=1, timeout=600, env=env, heap="3g")
        return "Invariant NotAccepted is violated" in out
    t1 = os.path.join(d, "tr_el.ndjson")
    orch.write_trace(t1, cfg, [evs])
    expect("recorded process", val(t1), True)
    if not any(e["e"] == "proc" and e["m"].get("mode") == "leader" for e in evs):
        log("  (the process did not become leader in this run: corruption test skipped)")
        return
    evs2 = [e for e in evs if not (e["e"] == "send" and e["m"]["t"] == "voteResp")]
    t2 = os.path.join(d, "tr_el_bad.ndjson")
    orch.write_trace(t2, cfg, [evs2])
    expect("the vote removed from the recording", val(t2), False)


def buffer():
    log("send buffer trace (Trace_Buffer)")
    sc = {"delay": 10, "tasks": {"t1": [{"op": "set_later", "k": "a", "v": "x1"}, {"op": "sleep", "ms": 3}, {"op": "set_later", "k": "a", "v": "x2"},
                                       {"op": "publish_later", "k": "b", "v": "y1"}, {"op": "sleep", "ms": 25}, {"op": "set_later", "k": "b", "v": "y2"}]}}
    path = os.path.join(d, "bsc.ndjson")
    open(path, "w").write(json.dumps({"hdr": True}) + "\n" + json.dumps(sc) + "\n")
    tr = os.path.join(d, "btr.ndjson")
    vlib.run_harness(["buffer-run", path, tr])
    import hashlib, shutil

    def val(trace):
        sub = os.path.join(d, "vb_" + hashlib.md5(trace.encode()).hexdigest()[:8])
        os.makedirs(sub, exist_ok=True)
        for f in os.listdir(d):
            if f.endswith(".tla"):
                shutil.copy(os.path.join(d, f), sub)
        env = dict(vlib.TRACE_ENV, TRACE=trace)
        out = vlib.tlc(sub, "Trace_Buffer", props.BUFFER_TRACE_CFG.replace("@DEV@", "{}"), workers=1, timeout=300, env=env, heap="2g")
        return "Invariant NotAccepted is violated" in out
    expect("recorded buffer", val(tr), True)
    lines = open(tr).read().splitlines()
    for i, l in enumerate(lines):
        j = json.loads(l)
        if j.get("e") == "sent" and j.get("k") == "a":
            j["v"] = "x1"          # the first value instead of the latest
            lines[i] = json.dumps(j)
            break
    tr2 = os.path.join(d, "btr_bad.ndjson")
    open(tr2, "w").write("\n".join(lines) + "\n")
    expect("the stale value reported as sent", val(tr2), False)


for f in (core, session, rest_and_agg, election, buffer):
    f()
log("selftest: " + ("all pairs behave as expected" if not bad else "UNEXPECTED: " + ", ".join(bad)))
sys.exit(1 if bad else 0)
