#!/usr/bin/env python3
"""bin/selftest.py: demonstrates that the specifications are bound to the code.

For the main trace kinds a small history is executed by the real code and validated (must be accepted);
then ONE recorded field is corrupted and the trace is validated again (must be rejected).  A trace
specification that accepted the corrupted recording would constrain nothing.  Exit 0 if every pair behaves
that way, 1 otherwise.  (Not a property check: no evidence, no VIOLATION lines.)"""
import sys, os, json, random, copy
sys.path.insert(0, os.path.dirname(os.path.abspath(__file__)))
import vlib, props, gens, sess, orch
from vlib import log

d = vlib.workdir("selftest")
vlib.build_harness()
bad = []


def expect(name, accepted, want):
    ok = accepted == want
    log(f"  {name}: {'accepted' if accepted else 'rejected'}  {'ok' if ok else '<-- UNEXPECTED'}")
    if not ok:
        bad.append(name)


def core():
    log("core trace (Trace_Core)")
    hdr, reqs = gens.gen_c01(random.Random(5), 300)
    req = os.path.join(d, "req_core.ndjson")
    open(req, "w").write(json.dumps(hdr) + "\n" + "".join(json.dumps(r) + "\n" for r in reqs))
    tr = os.path.join(d, "tr_core.ndjson")
    vlib.run_harness(["core-run", req, tr])
    known = vlib.known_flags()
    r = vlib.validate(d, "Trace_Core", props.TRACE_CFG, tr, props.CORE_TRACE_INV, known, 600)
    expect("recorded trace", r["status"] in ("ok", "known"), True)
    lines = open(tr).read().splitlines()
    # corrupt the value of one successful get
    for i, l in enumerate(lines[1:], 1):
        j = json.loads(l)
        if j.get("op") == "get" and j.get("rep", {}).get("t") == "val":
            j["rep"]["v"] = "corrupted"
            lines[i] = json.dumps(j)
            break
    tr2 = os.path.join(d, "tr_core_bad.ndjson")
    open(tr2, "w").write("\n".join(lines) + "\n")
    r = vlib.validate(d, "Trace_Core", props.TRACE_CFG, tr2, props.CORE_TRACE_INV, known, 600)
    expect("one get answer changed", r["status"] in ("ok", "known"), False)
    # drop one delivered event
    lines = open(tr).read().splitlines()
    for i, l in enumerate(lines[1:], 1):
        j = json.loads(l)
        if j.get("proj") and j.get("op") == "set" and j.get("rep", {}).get("t") == "ok":
            j["proj"]["len"] += 1
            lines[i] = json.dumps(j)
            break
    open(tr2, "w").write("\n".join(lines) + "\n")
    r = vlib.validate(d, "Trace_Core", props.TRACE_CFG, tr2, props.CORE_TRACE_INV, known, 600)
    expect("entry count off by one", r["status"] in ("ok", "known"), False)


def session():
    log("session trace (Trace_Session)")
    scs = sess.gen_c13(random.Random(7), "quick")[:3]
    path = os.path.join(d, "sc_sess.ndjson")
    open(path, "w").write(json.dumps({"hdr": True, "meaning": {}}) + "\n" + "".join(json.dumps(s) + "\n" for s in scs))
    raw = os.path.join(d, "raw_sess.ndjson")
    vlib.run_harness(["sock-run", path, raw, os.path.join(d, "sock")])
    tr = os.path.join(d, "tr_sess.ndjson")
    sess.postprocess(raw, tr)
    known = vlib.known_flags()
    r = sess.validate(d, tr, known, 600)
    expect("recorded sessions", r["status"] in ("ok", "known"), True)
    lines = open(tr).read().splitlines()
    done = False
    for i, l in enumerate(lines[1:], 1):
        sc = json.loads(l)
        for name, v in sc["sessions"].items():
            for rec in v["log"]:
                if rec.get("rep", {}).get("t") == "ok" and rec.get("op") in ("set", "lock", "sub", "psub"):
                    rec["rep"] = {"t": "err", "code": 5, "m": "err"}
                    done = True
                    break
            if done:
                break
        if done:
            lines[i] = json.dumps(sc)
            break
    tr2 = os.path.join(d, "tr_sess_bad.ndjson")
    open(tr2, "w").write("\n".join(lines) + "\n")
    r = sess.validate(d, tr2, known, 600)
    expect("one Ack turned into an Err", r["status"] in ("ok", "known"), False)


def election():
    log("election trace (Trace_Election)")
    import hashlib, shutil
    cfg = {"me": "n1", "peers": ["n2", "n3"], "foreign": ["x8"], "quorum": -1, "prio": 100, "suicide": True}
    steps = [{"do": "await", "what": "voteReq", "ms": 1500}, {"do": "send", "from": "n2", "m": {"t": "voteResp", "id": "n2"}},
             {"do": "await", "what": "proc", "ms": 1500}, {"do": "sleep", "ms": 100}]
    evs = orch.run_scenario(cfg, steps, d, "self")

    def val(trace):
        sub = os.path.join(d, "ve_" + hashlib.md5(trace.encode()).hexdigest()[:8])
        os.makedirs(sub, exist_ok=True)
        for f in os.listdir(d):
            if f.endswith(".tla"):
                shutil.copy(os.path.join(d, f), sub)
        env = dict(vlib.TRACE_ENV, TRACE=trace)
        out = vlib.tlc(sub, "Trace_Election", props.ELECTION_TRACE_CFG.replace("@AHEAD@", "8"), workers=1, timeout=600, env=env, heap="3g")
        return "Invariant NotAccepted is violated" in out
    t1 = os.path.join(d, "tr_el.ndjson")
    orch.write_trace(t1, cfg, [evs])
    expect("recorded process", val(t1), True)
    if not any(e["e"] == "proc" and e["m"].get("mode") == "leader" for e in evs):
        log("  (the process did not become leader in this run: corruption test skipped)")
        return
    evs2 = [e for e in evs if not (e["e"] == "send" and e["m"]["t"] == "voteResp")]
    t2 = os.path.join(d, "tr_el_bad.ndjson")
    orch.write_trace(t2, cfg, [evs2])
    expect("the vote removed from the recording", val(t2), False)


def buffer():
    log("send buffer trace (Trace_Buffer)")
    sc = {"delay": 10, "tasks": {"t1": [{"op": "set_later", "k": "a", "v": "x1"}, {"op": "sleep", "ms": 3}, {"op": "set_later", "k": "a", "v": "x2"},
                                       {"op": "publish_later", "k": "b", "v": "y1"}, {"op": "sleep", "ms": 25}, {"op": "set_later", "k": "b", "v": "y2"}]}}
    path = os.path.join(d, "bsc.ndjson")
    open(path, "w").write(json.dumps({"hdr": True}) + "\n" + json.dumps(sc) + "\n")
    tr = os.path.join(d, "btr.ndjson")
    vlib.run_harness(["buffer-run", path, tr])
    import hashlib, shutil

    def val(trace):
        sub = os.path.join(d, "vb_" + hashlib.md5(trace.encode()).hexdigest()[:8])
        os.makedirs(sub, exist_ok=True)
        for f in os.listdir(d):
            if f.endswith(".tla"):
                shutil.copy(os.path.join(d, f), sub)
        env = dict(vlib.TRACE_ENV, TRACE=trace)
        out = vlib.tlc(sub, "Trace_Buffer", props.BUFFER_TRACE_CFG.replace("@DEV@", "{}"), workers=1, timeout=300, env=env, heap="2g")
        return "Invariant NotAccepted is violated" in out
    expect("recorded buffer", val(tr), True)
    lines = open(tr).read().splitlines()
    for i, l in enumerate(lines):
        j = json.loads(l)
        if j.get("e") == "sent" and j.get("k") == "a":
            j["v"] = "x1"          # the first value instead of the latest
            lines[i] = json.dumps(j)
            break
    tr2 = os.path.join(d, "btr_bad.ndjson")
    open(tr2, "w").write("\n".join(lines) + "\n")
    expect("the stale value reported as sent", val(tr2), False)


for f in (core, session, election, buffer):
    f()
log("selftest: " + ("all pairs behave as expected" if not bad else "UNEXPECTED: " + ", ".join(bad)))
sys.exit(1 if bad else 0)
