"""C19: the cluster orchestrator as a black box.

One real orchestrator process (harness/target/debug/wborch = /repo's orchestrator main) is started
per scenario with a generated cluster config; this module plays ALL its peers on UDP sockets and
provides a stub `worterbuch` executable that logs how it is started and stopped.  What the peers
sent and saw is written as a trace for Trace_Election.tla; TLC decides whether the real process'
behaviour is a behaviour of Election.tla (with C19's step properties checked on every step of the
explanation)."""
import json, os, random, signal, socket, subprocess, threading, time, select, stat

import vlib

# the stub server: logs how it was started and that it was stopped.  The trap is installed first, so a
# SIGTERM that arrives before the start line was written still yields "start" + "stop"; a stub that is
# killed while bash is still starting up leaves no trace at all (Trace_Election tolerates an unobserved
# start that is immediately followed by its stop).
STUB = """#!/bin/bash
ARGS="$*"
STARTED=0
trap 'if [ $STARTED = 0 ]; then echo "start $ARGS" >> "$WBSTUB_LOG"; fi; echo "stop" >> "$WBSTUB_LOG"; kill $! 2>/dev/null; exit 0' TERM INT
echo "start $ARGS" >> "$WBSTUB_LOG"; STARTED=1
sleep 100000 &
wait $!
"""

HEARTBEAT_MS = 100
TIMEOUT_MS = 200


def free_udp():
    s = socket.socket(socket.AF_INET, socket.SOCK_DGRAM)
    s.bind(("127.0.0.1", 0))
    return s


def udp_port_bound(port):
    """is some socket bound to this UDP port? (read-only: /proc/net/udp)"""
    tag = ":%04X" % port
    try:
        with open("/proc/net/udp") as f:
            return any(line.split()[1].endswith(tag) for line in f.read().splitlines()[1:] if line.split())
    except OSError:
        return True


_me_lock = threading.Lock()
_me_counter = [0]


def node_port():
    """the UDP port of the node under test.  Not an OS-assigned one: between the moment such a port is
    released for the orchestrator and the moment the orchestrator binds it, the OS may hand it to a peer
    socket of a scenario running in parallel (datagrams then cross between scenarios).  Ports below the
    ephemeral range, one slot per process and scenario."""
    for _ in range(200):
        with _me_lock:
            _me_counter[0] += 1
            port = 20000 + (os.getpid() % 100) * 100 + (_me_counter[0] % 100)
        if not udp_port_bound(port):
            return port
    raise vlib.ToolError("no free UDP port for the node under test")


def free_tcp_port():
    s = socket.socket(socket.AF_INET, socket.SOCK_STREAM)
    s.bind(("127.0.0.1", 0))
    p = s.getsockname()[1]
    s.close()
    return p


def wire(m):
    """model message -> datagram of the orchestrator's peer protocol"""
    t = m["t"]
    if t == "voteReq":
        return {"vote": {"request": {"nodeId": m["id"], "priority": m["prio"]}}}
    if t == "voteResp":
        return {"vote": {"response": {"nodeId": m["id"]}}}
    if t == "hbReq":
        return {"heartbeat": {"request": {"nodeId": m["id"]}}}
    return {"heartbeat": {"response": {"nodeId": m["id"]}}}


def unwire(d):
    if "vote" in d:
        v = d["vote"]
        if "request" in v:
            return {"t": "voteReq", "id": v["request"]["nodeId"], "prio": v["request"]["priority"]}
        return {"t": "voteResp", "id": v["response"]["nodeId"]}
    h = d["heartbeat"]
    if "request" in h:
        return {"t": "hbReq", "id": h["request"]["nodeId"]}
    return {"t": "hbResp", "id": h["response"]["nodeId"]}


class Run:
    """one orchestrator process with its scripted peers"""

    def __init__(self, cfg, d, tag):
        self.cfg, self.d, self.tag = cfg, d, tag
        self.events, self.lock = [], threading.Lock()
        self.stop_reader = False
        # (nodes a later version of the config file may name have their sockets from the start)
        self.peer_socks = {p: free_udp() for p in cfg["peers"] + cfg.get("later", [])}
        self.foreign_sock = free_udp()
        self.me_port = node_port()
        self.sync = {p: 20000 + i for i, p in enumerate([cfg["me"]] + cfg["peers"] + cfg.get("later", []))}
        self.sync_rev = {"127.0.0.1:%d" % v: k for k, v in self.sync.items()}
        self.dir = os.path.join(d, "orch_" + tag)
        os.makedirs(self.dir, exist_ok=True)
        self.stub_log = os.path.join(self.dir, "stub.log")
        open(self.stub_log, "w").close()
        stub = os.path.join(self.dir, "worterbuch-stub")
        open(stub, "w").write(STUB)
        os.chmod(stub, os.stat(stub).st_mode | stat.S_IEXEC)
        cpath = self.cpath = os.path.join(self.dir, "config.yaml")
        self.write_config(cfg["peers"])
        env = dict(os.environ, WBSTUB_LOG=self.stub_log, WORTERBUCH_LOG="warn")
        self.errlog = open(os.path.join(self.dir, "orch.err"), "w")
        self.proc = subprocess.Popen(
            [os.path.join(vlib.HARNESS, "target", "debug", "wborch"), cfg["me"], "--config-path", cpath,
             "--heartbeat", str(HEARTBEAT_MS), "--timeout", str(TIMEOUT_MS), "--worterbuch-executable", stub,
             "--stats-port", str(10000 + (self.me_port - 20000)), "--data-dir", os.path.join(self.dir, "data"),
             # the config file watcher looks at the file once per interval (whole seconds): 1 s where the scenario rewrites it
             "--config-scan-interval", "1" if cfg.get("later") is not None and cfg.get("dynamic") else "3600"],
            cwd=self.dir, env=env, stdout=self.errlog, stderr=self.errlog, start_new_session=True)
        self.stub_pos = 0
        self.reader = threading.Thread(target=self.read_loop, daemon=True)
        self.reader.start()

    def log(self, ev):
        with self.lock:
            self.events.append(ev)

    def write_config(self, peers):
        cfg = self.cfg
        nodes = [{"nodeId": cfg["me"], "address": "127.0.0.1", "raftPort": self.me_port, "syncPort": self.sync[cfg["me"]],
                  "priority": cfg["prio"], "suicideOnSplitBrain": cfg["suicide"]}]
        for p in peers:
            nodes.append({"nodeId": p, "address": "127.0.0.1", "raftPort": self.peer_socks[p].getsockname()[1],
                          "syncPort": self.sync[p], "priority": 100})
        conf = {"nodes": nodes}
        if cfg["quorum"] != -1:
            conf["quorum"] = cfg["quorum"]
        tmp = self.cpath + ".tmp"
        open(tmp, "w").write(json.dumps(conf))          # JSON is YAML
        os.replace(tmp, self.cpath)                      # (never a half-written file)

    def rewrite(self, peers):
        """a new version of the config file; logged BEFORE the file changes (the watcher may see it at once)"""
        self.log({"e": "rewrite", "peers": list(peers)})
        self.write_config(peers)

    def poll_once(self, timeout):
        socks = list(self.peer_socks.values()) + [self.foreign_sock]
        r, _, _ = select.select(socks, [], [], timeout)
        for s in r:
            try:
                data, _ = s.recvfrom(65536)
            except OSError:
                continue
            to = next((p for p, q in self.peer_socks.items() if q is s), None)
            try:
                m = unwire(json.loads(data))
            except Exception:
                m = {"t": "garbage", "id": data[:40].decode("latin1")}
            self.log({"e": "net", "to": to if to else "?", "m": m})
        # the stub's log
        with open(self.stub_log) as f:
            f.seek(self.stub_pos)
            chunk = f.read()
        if chunk and chunk.endswith("\n"):
            self.stub_pos += len(chunk)
            for line in chunk.splitlines():
                if line.startswith("start"):
                    args = line.split()[1:]
                    if "--leader" in args:
                        self.log({"e": "proc", "m": {"t": "start", "mode": "leader", "to": ""}})
                    elif "--follower" in args:
                        addr = args[args.index("--leader-address") + 1] if "--leader-address" in args else "?"
                        self.log({"e": "proc", "m": {"t": "start", "mode": "follower", "to": self.sync_rev.get(addr, addr)}})
                    else:
                        self.log({"e": "proc", "m": {"t": "start", "mode": "other:" + " ".join(args), "to": ""}})
                elif line.startswith("stop"):
                    self.log({"e": "proc", "m": {"t": "stop"}})
        return bool(r) or bool(chunk)

    def read_loop(self):
        while not self.stop_reader:
            self.poll_once(0.005)

    def send(self, frm, m):
        self.log({"e": "send", "m": m})
        s = self.peer_socks.get(frm, self.foreign_sock)
        s.sendto(json.dumps(wire(m)).encode(), ("127.0.0.1", self.me_port))

    def seen(self, pred, since):
        with self.lock:
            return any(pred(e) for e in self.events[since:])

    def await_(self, pred, since, timeout_ms):
        t0 = time.time()
        while time.time() - t0 < timeout_ms / 1000.0:
            if self.seen(pred, since):
                return True
            time.sleep(0.003)
        return False

    def finish(self):
        """graceful end: SIGTERM, wait for the process, drain"""
        self.log({"e": "term"})
        try:
            self.proc.send_signal(signal.SIGTERM)
            self.proc.wait(timeout=10)
        except Exception:
            pass
        time.sleep(0.15)
        self.stop_reader = True
        self.reader.join(timeout=2)
        while self.poll_once(0.05):
            pass
        try:
            os.killpg(self.proc.pid, signal.SIGKILL)
        except Exception:
            pass
        rc = self.proc.poll()
        self.errlog.close()
        for s in list(self.peer_socks.values()) + [self.foreign_sock]:
            s.close()
        self.log({"e": "end", "rc": rc if rc is not None else -99})
        return self.events


def run_scenario(cfg, steps, d, tag):
    run = Run(cfg, d, tag)
    # datagrams sent before the process has bound its socket would be lost: wait for the socket
    t0 = time.time()
    while time.time() - t0 < 10 and run.proc.poll() is None and not udp_port_bound(run.me_port):
        time.sleep(0.003)
    mark = 0
    for st in steps:
        do = st["do"]
        if do == "sleep":
            time.sleep(st["ms"] / 1000.0)
        elif do == "send":
            run.send(st["from"], st["m"])
        elif do == "rewrite":
            run.rewrite(st["peers"])
        elif do == "await":
            what = st["what"]
            with run.lock:
                since = mark
            ok = run.await_(lambda e: (e["e"] == "net" and e["m"]["t"] == what) or (what == "proc" and e["e"] == "proc"), since, st.get("ms", 1500))
            with run.lock:
                mark = len(run.events)
    return run.finish()


# ----------------------------------------------------------------------------------------------------
def gen_configs(rnd, tier):
    """cluster sizes 1..7; default quorum (odd and even sizes), configured quorums, a refused one"""
    fixed = [(1, -1), (2, -1), (3, -1), (4, -1), (5, 2), (7, -1), (3, 1), (4, 4), (6, -1), (3, 4)]
    pairs = fixed[:8] if tier == "quick" else list(fixed)
    if tier != "quick":
        for _ in range(50):
            size = rnd.randint(1, 7)
            r = rnd.random()
            pairs.append((size, -1 if r < 0.5 else (rnd.randint(1, size) if r < 0.9 else size + 1)))   # size+1: refused at start-up (config.rs:195)
    out = []
    for size, quorum in pairs:
        peers = ["n%d" % (k + 2) for k in range(size - 1)]
        out.append({"me": "n1", "peers": peers, "foreign": ["x8", "x9"], "quorum": quorum, "prio": 100,
                    "suicide": rnd.random() < 0.7})
    # configurations whose file is rewritten at run time (no configured quorum: the default follows the node count)
    for size in ([2, 3, 4] if tier == "quick" else [1, 2, 3, 3, 4, 5, 6]):
        peers = ["n%d" % (k + 2) for k in range(size - 1)]
        out.append({"me": "n1", "peers": peers, "later": ["m1", "m2"], "dynamic": True, "foreign": ["x8", "x9"], "quorum": -1, "prio": 100,
                    "suicide": rnd.random() < 0.7})
    return out


def gen_steps(rnd, cfg):
    """scripted peer behaviour: silent peers, duplicated / late / foreign votes, competing candidates of
    higher / equal / lower priority, heartbeats of members, of non-members and of the node itself"""
    peers, foreign, me = cfg["peers"], cfg["foreign"], cfg["me"]
    later = cfg.get("later", []) if cfg.get("dynamic") else []
    anyone = peers + foreign + [me] + later
    steps = []
    rewritten = False
    for _ in range(rnd.randint(3, 8)):
        r = rnd.random()
        if later and not rewritten and rnd.random() < 0.3:
            # ONE new version of the config file per process (a second one within the same scan interval would replace
            # the first unseen): peers removed and / or added; then votes and heartbeats of old and new members while and
            # after the watcher picks it up (scan interval 1 s)
            rewritten = True
            keep = [p for p in peers if rnd.random() < 0.6]
            new = keep + [p for p in later if rnd.random() < 0.5]
            if sorted(new) == sorted(peers):
                new = peers + [later[0]]
            steps.append({"do": "rewrite", "peers": new})
            peers = sorted(set(peers + new))          # whoever was or is a member keeps talking
            steps.append({"do": "sleep", "ms": rnd.choice([0, 300, 700, 1100, 1400])})
            continue
        if r < 0.35:
            # wait until the node asks for votes, then answer in some way
            steps.append({"do": "await", "what": "voteReq", "ms": 1200})
            voters = []
            style = rnd.random()
            if peers and style < 0.3:
                voters = rnd.sample(peers, rnd.randint(1, len(peers)))
            elif peers and style < 0.5:
                v = rnd.choice(peers)
                voters = [v] * rnd.randint(2, 4)                          # one peer, many times
            elif style < 0.7:
                voters = [rnd.choice(foreign + [me]) for _ in range(rnd.randint(1, 4))]   # nobody who counts
            elif style < 0.85:
                voters = [rnd.choice(anyone) for _ in range(rnd.randint(1, 6))]
            if rnd.random() < 0.25:
                steps.append({"do": "sleep", "ms": rnd.choice([150, 220, 300])})         # late
            for v in voters:
                steps.append({"do": "send", "from": v, "m": {"t": "voteResp", "id": v}})
                if rnd.random() < 0.2:
                    steps.append({"do": "sleep", "ms": rnd.choice([1, 20, 90])})
        elif r < 0.5:
            v = rnd.choice(anyone)
            steps.append({"do": "send", "from": v, "m": {"t": "voteResp", "id": v}})       # unsolicited
        elif r < 0.68:
            c = rnd.choice(peers + foreign) if rnd.random() < 0.85 else me
            steps.append({"do": "send", "from": c, "m": {"t": "voteReq", "id": c, "prio": rnd.choice([50, 100, 100, 200])}})
            if rnd.random() < 0.5:
                h = c if rnd.random() < 0.6 else rnd.choice(anyone)
                steps.append({"do": "sleep", "ms": rnd.choice([5, 50, 150, 250])})
                steps.append({"do": "send", "from": h, "m": {"t": "hbReq", "id": h}})
        elif r < 0.8:
            h = rnd.choice(anyone)
            for _k in range(rnd.randint(1, 3)):
                steps.append({"do": "send", "from": h, "m": {"t": "hbReq", "id": h}})
                steps.append({"do": "sleep", "ms": rnd.choice([30, 80, 150])})
        elif r < 0.9:
            h = rnd.choice(peers + foreign)
            steps.append({"do": "send", "from": h, "m": {"t": "hbResp", "id": h}})
        else:
            steps.append({"do": "sleep", "ms": rnd.choice([50, 250, 450, 700])})
    steps.append({"do": "sleep", "ms": rnd.choice([100, 300, 500]) + (1000 if rewritten and rnd.random() < 0.7 else 0)})
    return steps


def grow_steps(cfg):
    """the cluster grows while the node is a candidate: the file is rewritten to name two more nodes, the watcher picks
    it up (scan interval 1 s), and from then on fresh election rounds get exactly as many votes of old members as
    reached the OLD majority - one short of the new one.  Then a round with enough votes."""
    peers, later = cfg["peers"], cfg["later"]
    old_q = (len(peers) + 1) // 2 + 1
    steps = [{"do": "rewrite", "peers": peers + later}, {"do": "sleep", "ms": 1500}, {"do": "await", "what": "voteReq", "ms": 1200}]
    for _ in range(3):
        steps.append({"do": "await", "what": "voteReq", "ms": 1200})          # a fresh request for votes
        for v in peers[:old_q - 1]:
            steps.append({"do": "send", "from": v, "m": {"t": "voteResp", "id": v}})
        steps.append({"do": "sleep", "ms": 250})
    steps.append({"do": "await", "what": "voteReq", "ms": 1200})
    for v in (peers + later)[:old_q]:
        steps.append({"do": "send", "from": v, "m": {"t": "voteResp", "id": v}})
    steps.append({"do": "sleep", "ms": 300})
    return steps


def write_trace(path, cfg, runs):
    with open(path, "w") as f:
        f.write(json.dumps(cfg) + "\n")
        for evs in runs:
            f.write(json.dumps({"e": "reset"}) + "\n")
            for e in evs:
                f.write(json.dumps(e) + "\n")
