#!/usr/bin/env python3
"""debug helper: bin/dbgtrace.py <rejected_trace.ndjson>: validate every scenario of a kept session trace on its own and
show, for the rejected ones, the logs and how far the search got"""
import sys, os, json, shutil, subprocess
sys.path.insert(0, os.path.dirname(os.path.abspath(__file__)))
import vlib, sess
lines = open(sys.argv[1]).read().splitlines()
d = vlib.workdir("dbg")
for i, l in enumerate(lines[1:]):
    p = os.path.join(d, f"one_{i}.ndjson")
    open(p, "w").write(lines[0] + "\n" + l + "\n")
    ok, det = sess.validate_once(d, p, vlib.known_flags(), False)
    print("scenario", i, "ACCEPTED" if ok else "REJECTED", {k: v for k, v in det.items() if k != "tail"})
    if not ok:
        shutil.copy(p, os.path.join(d, "tr.ndjson"))
        o = json.loads(l)
        print({k: v for k, v in o.items() if k not in ("sessions", "streams")})
        for name, v in o["sessions"].items():
            print("==", name)
            for k, r in enumerate(v["log"]):
                print("  %2d %s" % (k + 1, json.dumps({a: b for a, b in r.items() if a != "c"})[:300]))
        print("streams", json.dumps(o["streams"])[:1500])
        subprocess.run([sys.executable, os.path.join(os.path.dirname(os.path.abspath(__file__)), "dbgpos.py")])
        break
